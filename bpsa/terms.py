"""Backward value-term reconstruction (VTR) over MIR facts.

Terms are interned `Term` objects (tag + args, structural equality == identity).  References are
transparent in value terms (`&x`, `*x` have the term of `x`); pointer identity is handled separately by
the provenance analysis (`BodyIndex.prov`) which attributes writes through `&mut` to root locals
(*mutation events*).

Tags
  param(bodykey, idx, name)        upvar(bodykey, idx, name)       const(value)      item(path)
  fnitem(path)                     static(path)
  field(name, T)   variant(name, T)   discr(T)
  elem(T)  elemat(T, I)  index(T)      -- element of an iterator/collection, element at, enumerate index
  zip(A,B) chain(A,B) interleave(A,B) map(I,F) enumerate(I) once(X) repeat(X) flatten(I)
  adapt(name, I, extra...)             -- order/extent-changing adapter
  range(A,B)
  call(name, args, site)               -- external or un-inlined call; site = ((bodykey, bb), ...)
  closure(path, captures)              apply(F, args)
  adt(path::variant, ((field, T)...))  tuple(T...)  array(T...)
  binop(op, A, B)  unop(op, A)  cast(ty, T)  repeatv(T, n)
  phi(T...)                            lv(bodykey, local, header, site)   -- loop-carried variable
  mut(base, events)                    ev(kind, name, args, site)
  opaque(reason)
"""
import collections, re, sys
from .facts import callee_name, callee_decl, callee_is_local
from .cfg import CFG

sys.setrecursionlimit(20000)


class Term(object):
    __slots__ = ('tag', 'args', 'id', '__weakref__')
    _table = {}
    _n = 0

    def __getitem__(self, i):
        if i == 0:
            return self.tag
        return self.args[i - 1]

    def __len__(self):
        return 1 + len(self.args)

    def __iter__(self):
        yield self.tag
        for a in self.args:
            yield a

    def __repr__(self):
        return fmt(self)


def T(tag, *args):
    # (0 == False in Python: keep integer and boolean constants apart in the intern table)
    key = (tag, args, isinstance(args[0], bool)) if tag == 'const' and args else (tag, args)
    t = Term._table.get(key)
    if t is None:
        t = Term()
        t.tag = tag
        t.args = args
        Term._n += 1
        t.id = Term._n
        Term._table[key] = t
    return t


def ev_site(e):
    """(body key, block) of the innermost site of an event term (store events carry the statement index as a trailing 1-tuple)"""
    for x in reversed(e[4] or ()):
        if isinstance(x, tuple) and len(x) == 2:
            return x
    return (None, None)


def is_term(x):
    return isinstance(x, Term)


# ------------------------------------------------------------------------------------------------
# callee classification (declared path = trait method / inherent fn as written in MIR)

def _last(name):
    return name.split('::')[-1]


TRANSPARENT = {
    'std::ops::Deref::deref', 'std::ops::DerefMut::deref_mut', 'std::iter::IntoIterator::into_iter',
    'std::borrow::Borrow::borrow', 'std::borrow::BorrowMut::borrow_mut', 'zeroize::Zeroizing::<Z>::new',
    'std::convert::AsRef::as_ref', 'std::convert::AsMut::as_mut', 'std::option::Option::<T>::as_ref',
    'std::option::Option::<T>::as_mut', 'std::convert::Into::into', 'std::clone::Clone::clone',
    'std::borrow::ToOwned::to_owned', 'std::slice::<impl [T]>::to_vec', 'std::ops::Try::branch',
    'std::option::Option::<T>::ok_or', 'std::option::Option::<T>::ok_or_else', 'std::result::Result::<T, E>::map_err',
    'std::hint::must_use', 'std::iter::Iterator::by_ref', 'core::slice::<impl [T]>::iter',
    'core::slice::<impl [T]>::iter_mut', 'std::iter::Iterator::cloned', 'std::iter::Iterator::copied',
    'std::iter::Iterator::collect', 'std::sync::Arc::<T>::new', 'std::vec::Vec::<T, A>::as_slice',
    'std::vec::Vec::<T, A>::as_mut_slice', 'std::option::Option::<T>::cloned', 'std::option::Option::<T>::copied',
    'std::iter::Iterator::peekable', 'std::vec::Vec::<T, A>::into_iter', 'std::boxed::Box::<T>::new',
    'std::iter::Iterator::unzip', 'std::vec::Vec::<T, A>::iter', 'std::option::Option::<T>::ok_or_else',
    'digest::generic_array::GenericArray::<T, N>::as_slice', 'std::string::String::as_bytes',
    'core::str::<impl str>::as_bytes', 'std::string::ToString::to_string',
    'std::option::Option::<T>::unwrap', 'std::option::Option::<T>::expect', 'std::result::Result::<T, E>::unwrap',
    'std::result::Result::<T, E>::expect', 'std::option::Option::<T>::unwrap_or_default',
    'std::convert::From::from|option_from_ctoption', 'rand_core::CryptoRngCore::as_rngcore',
    'std::iter::Iterator::into_iter', 'std::result::Result::<T, E>::ok', 'std::convert::TryInto::try_into|same',
    'std::iter::Iterator::fuse', 'std::mem::take', 'std::mem::replace',
}
# calls that only convert representation (value preserved bit-for-bit or as bytes): kept as call nodes but
# classed as *copying* for the taint rules
COPYING = {
    'curve25519_dalek::Scalar::as_bytes', 'curve25519_dalek::Scalar::to_bytes', 'core::num::<impl u64>::to_le_bytes',
    'core::num::<impl u32>::to_le_bytes', 'core::num::<impl u8>::to_le_bytes', 'traits::FixedBytesRepr::as_fixed_bytes',
}
ELEM_NEXT = {'std::iter::Iterator::next', 'std::iter::DoubleEndedIterator::next_back'}
ELEM_AT = {
    'core::slice::<impl [T]>::get': 1, 'core::slice::<impl [T]>::get_mut': 1, 'std::ops::Index::index': 1,
    'std::ops::IndexMut::index_mut': 1, 'core::slice::<impl [T]>::get_unchecked': 1,
}
ELEM_NAMED = {
    'core::slice::<impl [T]>::first': 'first', 'core::slice::<impl [T]>::last': 'last',
    'core::slice::<impl [T]>::first_mut': 'first', 'core::slice::<impl [T]>::last_mut': 'last',
    'std::vec::Vec::<T, A>::pop': 'pop', 'std::iter::Iterator::last': 'last', 'std::iter::Iterator::nth': 'nth',
    'std::vec::Vec::<T, A>::remove': 'remove', 'std::vec::Vec::<T, A>::swap_remove': 'remove',
}
PAIR = {
    'std::iter::Iterator::zip': 'zip', 'std::iter::Iterator::chain': 'chain', 'itertools::Itertools::interleave': 'interleave',
    'std::iter::zip': 'zip', 'itertools::interleave': 'interleave', 'itertools::zip': 'zip', 'itertools::chain': 'chain',
}
ADAPT = {
    'std::iter::Iterator::rev', 'std::iter::Iterator::skip', 'std::iter::Iterator::take', 'std::iter::Iterator::step_by',
    'std::iter::Iterator::filter', 'std::iter::Iterator::skip_while', 'std::iter::Iterator::take_while',
    'core::slice::<impl [T]>::chunks', 'core::slice::<impl [T]>::chunks_exact', 'core::slice::<impl [T]>::chunks_mut',
    'core::slice::<impl [T]>::chunks_exact_mut', 'itertools::Itertools::tuples', 'core::slice::<impl [T]>::split_at',
    'core::slice::<impl [T]>::split_at_checked', 'core::slice::<impl [T]>::split_at_mut', 'std::iter::Iterator::filter_map',
    'core::slice::<impl [T]>::windows', 'std::iter::Iterator::min', 'std::iter::Iterator::max',
    'core::slice::<impl [T]>::split_first', 'core::slice::<impl [T]>::split_last', 'std::vec::Vec::<T, A>::drain',
    'std::vec::Vec::<T, A>::split_off', 'core::slice::<impl [T]>::rchunks', 'std::iter::Iterator::find',
    'std::iter::Iterator::position', 'std::iter::Iterator::peekable|no', 'std::iter::Iterator::cycle',
    'std::iter::Iterator::scan', 'std::iter::Iterator::dedup', 'itertools::Itertools::dedup',
    'core::slice::<impl [T]>::reverse|no', 'std::iter::Iterator::nth|no',
}
ARITH = {
    'std::ops::Add::add': 'Add', 'std::ops::Sub::sub': 'Sub', 'std::ops::Mul::mul': 'Mul', 'std::ops::Neg::neg': 'Neg',
    'std::ops::Shr::shr': 'Shr', 'std::ops::Shl::shl': 'Shl', 'std::ops::BitAnd::bitand': 'BitAnd',
    'std::ops::BitOr::bitor': 'BitOr', 'std::ops::BitXor::bitxor': 'BitXor', 'std::ops::Div::div': 'Div',
    'std::ops::Rem::rem': 'Rem', 'std::ops::Not::not': 'Not',
    'std::cmp::PartialEq::eq': 'Eq', 'std::cmp::PartialEq::ne': 'Ne', 'std::cmp::PartialOrd::lt': 'Lt',
    'std::cmp::PartialOrd::le': 'Le', 'std::cmp::PartialOrd::gt': 'Gt', 'std::cmp::PartialOrd::ge': 'Ge',
}
ARITH_ASSIGN = {
    'std::ops::AddAssign::add_assign': 'Add', 'std::ops::SubAssign::sub_assign': 'Sub',
    'std::ops::MulAssign::mul_assign': 'Mul', 'std::ops::ShrAssign::shr_assign': 'Shr',
    'std::ops::ShlAssign::shl_assign': 'Shl', 'std::ops::DivAssign::div_assign': 'Div',
    'std::ops::BitAndAssign::bitand_assign': 'BitAnd', 'std::ops::BitOrAssign::bitor_assign': 'BitOr',
}
# callees that hand a `&mut` (or an iterator over `&mut`) through without writing to the pointee
PROPAGATORS = {
    'core::slice::<impl [T]>::iter_mut', 'std::ops::DerefMut::deref_mut', 'std::ops::IndexMut::index_mut',
    'std::convert::AsMut::as_mut', 'std::iter::IntoIterator::into_iter', 'std::iter::Iterator::by_ref',
    'std::iter::Iterator::zip', 'std::iter::Iterator::next', 'std::iter::Iterator::enumerate', 'std::iter::Iterator::rev',
    'std::iter::Iterator::skip', 'std::iter::Iterator::take', 'std::iter::Iterator::map', 'std::iter::Iterator::chain',
    'core::slice::<impl [T]>::last_mut', 'core::slice::<impl [T]>::first_mut', 'core::slice::<impl [T]>::get_mut',
    'core::slice::<impl [T]>::split_at_mut', 'core::slice::<impl [T]>::chunks_mut', 'std::borrow::BorrowMut::borrow_mut',
    'std::option::Option::<T>::as_mut', 'std::vec::Vec::<T, A>::as_mut_slice', 'std::iter::Iterator::step_by',
    'std::iter::Iterator::filter', 'std::vec::Vec::<T, A>::iter_mut', 'itertools::Itertools::interleave',
    'std::iter::Iterator::collect', 'std::iter::Iterator::flatten', 'std::iter::Iterator::flat_map',
    'std::iter::Iterator::for_each|no', 'std::iter::DoubleEndedIterator::next_back', 'std::iter::Iterator::skip_while',
    'std::iter::Iterator::take_while', 'rand_core::CryptoRngCore::as_rngcore', 'std::iter::Iterator::peekable',
    'core::slice::<impl [T]>::chunks_exact_mut', 'std::iter::zip', 'itertools::interleave', 'itertools::zip', 'itertools::chain',
}
META_ONLY = {
    'core::slice::<impl [T]>::len', 'std::vec::Vec::<T, A>::len', 'core::slice::<impl [T]>::is_empty',
    'std::vec::Vec::<T, A>::is_empty', 'std::vec::Vec::<T, A>::capacity', 'std::iter::Iterator::size_hint',
    'std::iter::ExactSizeIterator::len', 'std::iter::Iterator::count',
}


def holds_mut(ty):
    return '&mut' in ty or 'IterMut' in ty or 'ChunksMut' in ty or 'ChunksExactMut' in ty


TERM_IDX = 10 ** 6
CURRENT = None
_PROJ_BUSY = set()


class BodyIndex:
    """definition / provenance / mutation indexes of one MIR body"""

    def __init__(self, body, eng=None):
        self.body = body
        self.eng = eng
        self.cfg = CFG(body)
        self.defs = collections.defaultdict(list)      # local -> [(bb, idx, kind, node)] kind: 'assign'|'call'
        for b in body.blocks:
            if b['cleanup']:
                continue
            if b['i'] not in self.cfg.succ or b['i'] not in self.cfg.reach_set:
                continue
            for i, s in enumerate(b['stmts']):
                if s['k'] == 'assign':
                    self.defs[s['place']['l']].append((b['i'], i, 'assign', s))
            t = b['term']
            if t['k'] == 'call':
                self.defs[t['dest']['l']].append((b['i'], TERM_IDX, 'call', t))
        self._prov = {}
        self._events = None
        self._rd_cache = {}
        self._wd_cache = {}
        self._eo_cache = {}

    # ---- definitions ---------------------------------------------------------------------------
    def whole_defs(self, l):
        c = self._wd_cache.get(l)
        if c is None:
            c = tuple(d for d in self.defs.get(l, [])
                      if (d[2] == 'call' and not d[3]['dest']['p']) or (d[2] == 'assign' and not d[3]['place']['p']))
            self._wd_cache[l] = c
        return list(c)

    def reaching_defs(self, l, bb, idx):
        """whole definitions of local l that reach program point (bb, idx) (before statement idx)"""
        wd = self.whole_defs(l)
        if len(wd) <= 1:
            return wd
        key = (l, bb, idx)
        if key in self._rd_cache:
            return self._rd_cache[key]
        by_block = collections.defaultdict(list)
        for d in wd:
            by_block[d[0]].append(d)
        earlier = [d for d in by_block.get(bb, []) if d[1] < idx]
        if earlier:
            res = [max(earlier, key=lambda d: d[1])]
        else:
            res, seen = [], set()
            work = list(self.cfg.pred.get(bb, []))
            while work:
                x = work.pop()
                if x in seen:
                    continue
                seen.add(x)
                if x in by_block:
                    res.append(max(by_block[x], key=lambda d: d[1]))
                    continue
                work.extend(self.cfg.pred.get(x, []))
            res.sort(key=lambda d: (d[0], d[1]))
        self._rd_cache[key] = res
        return res

    # ---- field paths of references --------------------------------------------------------------
    def ref_fpath(self, p, depth=0):
        """field path (names, from the root object) of the location that place p denotes, following the single definitions of
        the reference locals it dereferences; () when unknown or when the whole object is meant"""
        if depth > 32:
            return ()
        proj = p['p']
        path = ()
        if proj and proj[0]['k'] == 'deref':
            path = self.local_fpath(p['l'], depth + 1)
            proj = proj[1:]
        for e in proj:
            if e['k'] == 'field':
                path = path + ((e.get('name') or str(e.get('i'))),)
            elif e['k'] == 'deref':
                break                   # the object behind a pointer stored in that field: attributed to the field
            elif e['k'] in ('index', 'constant_index', 'subslice'):
                break                   # an element of the collection held in that field
        return path

    def local_fpath(self, l, depth=0):
        """field path of what the reference held in local l points at (relative to its root object)"""
        if depth > 32 or l <= self.body.argc:
            return ()
        ds = self.defs.get(l, [])
        if len(ds) > 1:
            # several definitions (the return place of a spliced helper, assigned at each of its exits): the same path from all, or unknown
            def carries(d):
                # the failure exits (`Err(e)`, `None`, `from_residual(..)`) hold no reference
                (bb_, idx_, kind_, node_) = d
                if kind_ == 'call':
                    return not callee_decl(node_).endswith('from_residual')
                rv_ = node_['rv']
                return not (rv_['k'] == 'aggregate' and rv_['kind'].get('a') == 'adt' and rv_['kind'].get('variant') in ('Err', 'None', 'Break'))
            paths = {self._def_fpath(d, depth) for d in ds if carries(d)}
            return paths.pop() if len(paths) == 1 else ()
        if len(ds) != 1:
            return ()
        return self._def_fpath(ds[0], depth)

    def _def_fpath(self, d, depth):
        (bb, idx, kind, node) = d
        if kind == 'call':
            decl = callee_decl(node)
            if (decl in PROPAGATORS or decl in TRANSPARENT or decl == 'std::ops::Try::branch') and node['args'] and node['args'][0]['k'] in ('copy', 'move'):
                return self.ref_fpath_value(node['args'][0]['place'], depth + 1)
            return ()
        rv = node['rv']
        if rv['k'] == 'aggregate' and rv['kind'].get('a') == 'adt' and rv['kind'].get('variant') in ('Ok', 'Some', 'Continue') and len(rv['ops']) == 1 \
                and rv['ops'][0].get('k') in ('copy', 'move'):
            return self.ref_fpath_value(rv['ops'][0]['place'], depth + 1)      # a reference handed on inside Ok(..) / Some(..)
        if rv['k'] in ('ref', 'rawptr'):
            return self.ref_fpath(rv['place'], depth + 1)
        if rv['k'] == 'copyforderef':
            return self.ref_fpath_value(rv['place'], depth + 1)
        if rv['k'] in ('use', 'cast') and rv['op']['k'] in ('copy', 'move'):
            return self.ref_fpath_value(rv['op']['place'], depth + 1)
        return ()

    def ref_fpath_value(self, p, depth=0):
        """field path of what the reference *stored in* place p points at"""
        if p['p']:
            ty = self.body.local_ty(p['l'])
            if all(e['k'] in ('downcast', 'field') for e in p['p']) and any(e['k'] == 'downcast' for e in p['p']) \
                    and ty.startswith(('std::result::Result<', 'std::option::Option<', 'std::ops::ControlFlow<')):
                return self.local_fpath(p['l'], depth)      # the payload of Ok(..) / Some(..) / Continue(..): the wrapper is transparent
            # a pointer read out of a field: what it points at is attributed to that field
            return self.ref_fpath(p, depth)
        return self.local_fpath(p['l'], depth)

    # ---- provenance ----------------------------------------------------------------------------
    def place_roots(self, p, seen=frozenset()):
        """roots a reference to place p points into: ('L', local) | ('U', upvar index)"""
        l = p['l']
        proj = p['p']
        body = self.body
        if body.is_closure and l == 1:
            for e in proj:
                if e['k'] == 'field':
                    return frozenset([('U', e['i'])])
            return frozenset([('L', 1)])
        if any(e['k'] == 'deref' for e in proj):
            base = self.prov(l, seen)
            # `(*env).i` with env a reference to a closure value built in this body (a closure body spliced at its call): the
            # captured variable i, not the closure value
            k = next((j for j, e in enumerate(proj) if e['k'] == 'deref'), None)
            fld = next((e['i'] for e in proj[k + 1:] if e['k'] == 'field'), None) if k is not None else None
            if fld is not None and any(r[0] == 'L' and body.local_ty(r[1]).startswith('{closure@') for r in base):
                out = set()
                for r in base:
                    cap = self._captured_roots(r[1], fld, seen) if r[0] == 'L' and body.local_ty(r[1]).startswith('{closure@') else None
                    out |= cap if cap is not None else {r}
                return frozenset(out)
            return base
        r = frozenset([('L', l)])
        if holds_mut(body.local_ty(l)) and l > body.argc:
            r = r | self.prov(l, seen)
        return r

    def _captured_roots(self, cl, i, seen):
        """roots of captured variable i of the closure value held in local cl (None when it is not built by one aggregate here)"""
        ds = [d for d in self.defs.get(cl, []) if d[2] != 'call' and d[3]['rv']['k'] == 'aggregate' and d[3]['rv']['kind'].get('a') == 'closure']
        if len(ds) != 1 or len(self.defs.get(cl, [])) != 1:
            return None
        ops = ds[0][3]['rv']['ops']
        if not (0 <= i < len(ops)) or ops[i]['k'] not in ('copy', 'move'):
            return None
        pl = ops[i]['place']
        if holds_mut(pl['ty']) or holds_mut(self.body.local_ty(pl['l'])):
            return self.place_roots_value(pl, seen | {cl})
        return frozenset([('L', pl['l'])])

    def prov(self, l, seen=frozenset()):
        """roots that local l (a reference / iterator over references / tuple of those) may point into"""
        if l in self._prov:
            return self._prov[l]
        body = self.body
        if 1 <= l <= body.argc:
            if body.is_closure and l == 1:
                return frozenset([('L', 1)])
            return frozenset([('L', l)])
        if l in seen:
            return frozenset()
        seen = seen | {l}
        out = set()
        for (bb, idx, kind, node) in self.defs.get(l, []):
            if kind == 'call':
                for a in node['args']:
                    if a['k'] in ('copy', 'move'):
                        ty = body.local_ty(a['place']['l'])
                        if holds_mut(ty) or holds_mut(a['place']['ty']):
                            out |= self.deref_roots(a['place'], seen)
            else:
                rv = node['rv']
                k = rv['k']
                if k == 'ref' or k == 'rawptr':
                    out |= self.place_roots(rv['place'], seen)
                elif k == 'copyforderef':
                    out |= self.place_roots_value(rv['place'], seen)
                elif k in ('use', 'cast'):
                    o = rv['op']
                    if o['k'] in ('copy', 'move'):
                        out |= self.place_roots_value(o['place'], seen)
                elif k == 'aggregate':
                    for o in rv['ops']:
                        if o['k'] in ('copy', 'move'):
                            out |= self.place_roots_value(o['place'], seen)
        res = frozenset(out)
        if len(seen) == 1:
            self._prov[l] = res
        return res

    def deref_roots(self, p, seen):
        """roots of what a call may return when handed the reference held in place p: for `&mut it` with `it` itself a
        holder of references (an iterator over `&mut`), the things `it` points into rather than `it`"""
        body = self.body
        out = set()
        for r in self.place_roots_value(p, seen):
            if r[0] == 'L' and r[1] > body.argc and holds_mut(body.local_ty(r[1])) and r[1] not in seen:
                inner = self.prov(r[1], seen)
                out |= (inner - {r}) if inner - {r} else {r}
            else:
                out.add(r)
        return frozenset(out)

    def place_roots_value(self, p, seen):
        """roots pointed into by the *value* stored in place p (p holds a reference or an iterator)"""
        l = p['l']
        body = self.body
        if body.is_closure and l == 1:
            for e in p['p']:
                if e['k'] == 'field':
                    return frozenset([('U', e['i'])])
        base = self.prov(l, seen)
        fld = next((e['i'] for e in p['p'] if e['k'] == 'field'), None)
        if fld is not None and p['p'] and p['p'][0]['k'] in ('deref', 'field'):
            # a captured reference read back from a closure value built in this body: `copy (*env).i`
            cands = set(base)
            if body.local_ty(l).startswith('{closure@') and p['p'][0]['k'] == 'field':
                cands.add(('L', l))
            if any(r[0] == 'L' and body.local_ty(r[1]).startswith('{closure@') for r in cands):
                out = set()
                for r in cands:
                    cap = self._captured_roots(r[1], fld, seen) if r[0] == 'L' and body.local_ty(r[1]).startswith('{closure@') else None
                    out |= cap if cap is not None else ({r} if r in base else set())
                return frozenset(out)
        return base

    CONSUMERS = ('std::iter::Iterator::for_each', 'std::iter::Iterator::try_for_each', 'std::iter::Iterator::map', 'std::iter::Iterator::inspect')

    def _applier(self, bb, cl):
        """(block, terminator) of the iterator consumer / adapter call that closure local `cl` (created in block bb) is handed to"""
        seen, work = set(), [bb]
        while work:
            x = work.pop()
            if x in seen or len(seen) > 12:
                continue
            seen.add(x)
            t = self.body.block[x]['term']
            if t['k'] == 'call':
                for i, a in enumerate(t['args']):
                    if a['k'] in ('move', 'copy') and a['place']['l'] == cl and not a['place']['p']:
                        if callee_decl(t) in self.CONSUMERS and i == 1:
                            return x, t
                        return None
            work.extend(self.cfg.succ.get(x, []))
        return None

    # ---- mutation events -----------------------------------------------------------------------
    def events(self):
        """sites that may write through a `&mut` into a root:  list of dicts
        {bb, idx, kind:'call'|'store', roots, callee, decl, args (operand json, without the mutref), node}"""
        if self._events is not None:
            return self._events
        body = self.body
        evs = []
        for b in body.blocks:
            if b['cleanup'] or b['i'] not in self.cfg.reach_set:
                continue
            for i, s in enumerate(b['stmts']):
                if s['k'] != 'assign':
                    continue
                p = s['place']
                if not p['p']:
                    continue
                if any(e['k'] == 'deref' for e in p['p']) or (body.is_closure and p['l'] == 1):
                    roots = self.place_roots(p)
                else:
                    roots = frozenset([('L', p['l'])])
                evs.append({'bb': b['i'], 'idx': i, 'kind': 'store', 'roots': roots, 'callee': 'store', 'decl': 'store',
                            'args': [], 'rv': s['rv'], 'place': p, 'line': s['line'], 'fpath': self.ref_fpath(p)})
            t = b['term']
            if t['k'] != 'call':
                continue
            decl = callee_decl(t)
            for ai, a in enumerate(t['args']):
                if a['k'] not in ('copy', 'move'):
                    continue
                aty = a['place']['ty']
                if not holds_mut(aty):
                    continue
                if decl in PROPAGATORS and (holds_mut(t['dest']['ty']) or decl in ELEM_NEXT):
                    continue
                if decl in META_ONLY:
                    continue
                roots = self.place_roots_value(a['place'], frozenset())
                if not roots:
                    continue
                oargs = [x for j, x in enumerate(t['args']) if j != ai]
                if decl == 'std::vec::Vec::<T, A>::append' and ai == 1:
                    oargs = []          # `other` is drained, it receives nothing from `self`
                evs.append({'bb': b['i'], 'idx': TERM_IDX, 'kind': 'call', 'roots': roots, 'callee': callee_name(t),
                            'decl': decl, 'args': oargs, 'mutarg': ai,
                            'node': t, 'line': t['span']['l0'], 'fpath': self.ref_fpath_value(a['place'])})
        # writes performed inside closures created here, through captured `&mut` (for_each / try_for_each / map bodies):
        # attributed to the captured root at the closure's creation site
        if self.eng is not None:
            for b in body.blocks:
                if b['cleanup'] or b['i'] not in self.cfg.reach_set:
                    continue
                for i, s in enumerate(b['stmts']):
                    if s['k'] != 'assign' or s['rv']['k'] != 'aggregate' or s['rv']['kind'].get('a') != 'closure':
                        continue
                    cb = self.eng.facts.fn.get(s['rv']['kind']['path'])
                    if cb is None or cb.key == body.key:
                        continue
                    ops = s['rv']['ops']
                    # writes through the closure's own parameter (`iter_mut().for_each(|x| *x += ..)`): attributed to what the
                    # iterator the closure is applied to points into
                    app = self._applier(b['i'], s['place']['l']) if not s['place']['p'] else None
                    if app is not None:
                        abb, at = app
                        a0 = at['args'][0]
                        proots = self.deref_roots(a0['place'], frozenset()) if a0['k'] in ('copy', 'move') and holds_mut(a0['place']['ty']) else frozenset()
                        if proots:
                            for e in self.eng.bx(cb).events():
                                if ('L', 2) in e['roots']:
                                    evs.append({'bb': b['i'], 'idx': i, 'kind': 'closure', 'roots': proots, 'callee': e['callee'], 'decl': e['decl'],
                                                'args': [], 'inner': e, 'cbody': cb, 'captures': ops, 'line': e['line'], 'closure_local': s['place']['l'],
                                                'fpath': self.ref_fpath_value(a0['place'])})
                            # the consumer call itself mutates nothing beyond what its closure does
                            evs[:] = [x for x in evs if not (x['kind'] == 'call' and x['bb'] == abb and x.get('mutarg') == 0 and x['decl'] == callee_decl(at))]
                    for e in self.eng.bx(cb).events():
                        for r in e['roots']:
                            if r[0] != 'U' or r[1] >= len(ops):
                                continue
                            o = ops[r[1]]
                            if o['k'] not in ('copy', 'move'):
                                continue
                            roots = self.place_roots_value(o['place'], frozenset())
                            if body.is_closure and o['place']['l'] == 1:
                                roots = self.place_roots_value(o['place'], frozenset())
                            if not roots:
                                continue
                            evs.append({'bb': b['i'], 'idx': i, 'kind': 'closure', 'roots': roots, 'callee': e['callee'], 'decl': e['decl'],
                                        'args': [], 'inner': e, 'cbody': cb, 'captures': ops, 'line': e['line'], 'closure_local': s['place']['l'] if not s['place']['p'] else None})
        self._events = evs
        return evs

    def events_on(self, root):
        c = self._eo_cache.get(root)
        if c is None:
            c = tuple(e for e in self.events() if root in e['roots'])
            self._eo_cache[root] = c
        return list(c)


class Engine:
    def __init__(self, facts, maxdepth=160, inline_small=True):
        self.facts = facts
        self.maxdepth = maxdepth
        self.inline_small = inline_small
        self._inlining_names = set()
        self._const_busy = set()
        self._idx = {}
        self._memo = {}
        self._ret = {}
        self._small = {}
        self._inlining = set()
        self._cuts = 0
        global CURRENT
        CURRENT = self

    def len_equalities(self, body, bb):
        """[(A, B)] collection terms with len(A) == len(B) established on every path to bb: the block is dominated by the edge of a
        switch on `len(A) == len(B)` (or `!=`) taken when the lengths are equal.  The switches are found on the MIR itself (a
        comparison of the results of two `len` calls), and only the arguments of those calls are evaluated, so that asking in the
        middle of another evaluation cannot meet a half-computed loop variable."""
        key = ('leq', body.key)
        tab = self._memo.get(key)
        ix = self.bx(body)
        cfg = ix.cfg
        if tab is None:
            tab = []

            def single_def(l):
                ds = ix.defs.get(l, [])
                return ds[0] if len(ds) == 1 else None

            def len_call(op):
                # operand -> (block, argument operand) of the `len` call that defines it (through plain moves)
                for _ in range(4):
                    if op.get('k') not in ('copy', 'move') or op['place']['p']:
                        return None
                    d = single_def(op['place']['l'])
                    if d is None:
                        return None
                    if d[2] == 'call':
                        t = d[3]
                        if callee_decl(t).split('::')[-1] == 'len' and len(t['args']) == 1:
                            return (d[0], t['args'][0])
                        return None
                    rv = d[3]['rv']
                    if rv['k'] == 'use':
                        op = rv['op']
                        continue
                    return None
                return None
            for b in body.blocks:
                t = b['term']
                if b['cleanup'] or t['k'] != 'switch' or b['i'] not in cfg.reach_set:
                    continue
                d = t['discr']
                if d.get('k') not in ('copy', 'move') or d['place']['p']:
                    continue
                dd = single_def(d['place']['l'])
                if dd is None or dd[2] != 'assign' or dd[3]['rv']['k'] != 'binop' or dd[3]['rv'].get('op') not in ('Eq', 'Ne'):
                    continue
                rv = dd[3]['rv']
                la, lb = len_call(rv['a']), len_call(rv['b'])
                if la is None or lb is None:
                    continue
                arms = {str(v): tgt for v, tgt in t['arms']}
                true_tgt = t['otherwise'] if '0' in arms else None
                false_tgt = arms.get('0')
                eq_tgt = true_tgt if rv['op'] == 'Eq' else false_tgt
                if eq_tgt is not None:
                    tab.append((b['i'], eq_tgt, la, lb))
            self._memo[key] = tab
        out = []
        for (sw, tgt, la, lb) in tab:
            others = [x for x in cfg.pred.get(tgt, []) if x != sw and not cfg.dominates(tgt, x)]
            if not others and cfg.dominates(tgt, bb):
                try:
                    out.append((self.operand(body, la[0], TERM_IDX, la[1]), self.operand(body, lb[0], TERM_IDX, lb[1])))
                except Exception:
                    continue
        return tuple(out)

    def bx(self, body):
        k = body.key
        if k not in self._idx:
            self._idx[k] = BodyIndex(body, self)
        return self._idx[k]

    # ---- operands, places ----------------------------------------------------------------------
    def operand(self, body, bb, idx, op, depth=0):
        k = op['k']
        if k in ('copy', 'move'):
            return self.place(body, bb, idx, op['place'], depth)
        if k == 'const':
            return self.const(body, op)
        return T('opaque', 'operand')

    def call_args(self, body, bb):
        term = body.block[bb]['term']
        return tuple(self.operand(body, bb, TERM_IDX, a) for a in term['args'])

    def call_result(self, body, bb):
        """term of the value produced by the call terminating block bb"""
        term = body.block[bb]['term']
        return self._call(body, bb, term, 0)

    def const(self, body, o):
        if 'item' in o and 'promoted' not in o and 'int' not in o and 'str' not in o and ('bytes' not in o or o.get('ty', '').startswith('&')) and o['item'] in self.facts.consts and o['item'] not in self._const_busy:
            # a crate-local named constant is its value
            self._const_busy.add(o['item'])
            try:
                v = self.return_term(self.facts.consts[o['item']])
            finally:
                self._const_busy.discard(o['item'])
            if v.tag not in ('opaque',):
                return v
        if 'promoted' in o:
            pb = self.facts.promoted.get((o['item'], o['promoted']))
            if pb is not None:
                return self.return_term(pb)
            return T('item', '%s#%d' % (o['item'], o['promoted']))
        if 'str' in o:
            return T('const', o['str'].encode())
        if 'fn' in o:
            return T('fnitem', o['fn'])
        if 'static' in o:
            return T('static', o['static'])
        if 'item' in o and 'int' not in o and 'bytes' not in o:
            return T('item', o['item'])
        if o.get('ty') == 'curve25519_dalek::Scalar' and 'bytes' in o and len(o['bytes']) == 64:
            return T('scalar', int.from_bytes(bytes.fromhex(o['bytes']), 'little'))
        if 'item' in o and 'int' not in o and 'promoted' not in o:
            return T('item', o['item'])
        if 'bool' in o:
            return T('const', bool(o['bool']))
        if 'sint' in o:
            return T('const', int(o['sint']))
        if 'int' in o:
            return T('const', int(o['int']))
        if 'bytes' in o:
            return T('const', bytes.fromhex(o['bytes']))
        if 'item' in o:
            return T('item', o['item'])
        if o.get('zst'):
            return T('const', ())
        return T('opaque', 'const:' + o['ty'])

    def place(self, body, bb, idx, p, depth=0):
        l = p['l']
        proj = p['p']
        if body.is_closure and l == 1:
            # closure environment: (*_1).j [deref]  -> upvar j
            for n, e in enumerate(proj):
                if e['k'] == 'field':
                    name = None
                    for u in body.upvars:
                        fs = [x for x in u['place']['p'] if x['k'] == 'field']
                        if fs and fs[0]['i'] == e['i']:
                            name = u['name']
                    t = T('upvar', body.key, e['i'], name)
                    return self._project(t, proj[n + 1:], body, bb, idx, depth)
            return T('param', body.key, 1, 'env')
        t = self.local(body, bb, idx, l, depth)
        if any(e['k'] == 'cindex' for e in proj):
            # position 0 of a *slice* bound by a slice pattern (`let [first, ..] = xs else`) is the element `xs.first()` names; constant
            # positions of a fixed-size array (`let [b0, b1, b2, b3] = x.to_le_bytes()`) stay numbers
            ty = body.local_ty(l)
            while ty.startswith('&'):
                ty = ty[1:].lstrip()
                if ty.startswith('mut '):
                    ty = ty[4:]
            is_slice = ty.startswith('[') and ty.endswith(']') and not re.search(r';\s*[\w:]+\]$', ty)
            if is_slice:
                proj2 = []
                for n, e in enumerate(proj):
                    if e['k'] == 'cindex' and all(x['k'] == 'deref' for x in proj[:n]):
                        e = dict(e, of_slice=True)
                    proj2.append(e)
                proj = proj2
        return self._project(t, proj, body, bb, idx, depth)

    def _project(self, t, proj, body, bb, idx, depth):
        i = 0
        n = len(proj)
        while i < n:
            e = proj[i]
            k = e['k']
            if k == 'deref':
                pass
            elif k == 'field':
                t = project_field(t, e['name'] or str(e['i']), e['i'])
            elif k == 'downcast':
                v = e['variant']
                if v in ('Some', 'Ok', 'Continue') and i + 1 < n and proj[i + 1]['k'] == 'field' and proj[i + 1]['i'] == 0:
                    t = unwrap_variant(t, v)
                    i += 1
                else:
                    t = project_variant(t, v)
            elif k == 'index':
                t = mk_elemat(t, self.local(body, bb, idx, e['l'], depth + 1), lambda: self.len_equalities(body, bb))
            elif k == 'cindex':
                # (position 0 bound by a slice pattern `[first, ..]` is the element `first()` names)
                t = mk_elemat(t, T('const', -e['off'] - 1 if e['from_end'] else (e['off'] if e['off'] or not e.get('of_slice') else 'first')))
            elif k == 'subslice':
                if e.get('from_end') and e['to'] == 0:
                    # `[_, rest @ ..]`: everything after the first `from` elements -- what `iter().skip(from)` walks
                    t = T('adapt', 'skip', t, T('const', e['from'])) if e['from'] else t
                else:
                    t = T('adapt', 'subslice', t, T('const', e['from']), T('const', e['to']))
            else:
                t = T(k, t)
            i += 1
        return t

    # ---- locals --------------------------------------------------------------------------------
    def local(self, body, bb, idx, l, depth=0):
        if 1 <= l <= body.argc:
            base = T('param', body.key, l, body.local_name(l) or '_%d' % l)
            return self._with_events(body, bb, idx, l, base, depth)
        ix = self.bx(body)
        wd = ix.whole_defs(l)
        # the value is program-point dependent when the local has several definitions or is mutated in place
        multi = len(wd) > 1 or bool(ix.events_on(('L', l)))
        mkey = (body.key, l, bb if multi else -1, idx if multi else -1)
        hit = self._memo.get(mkey)
        if hit is not None:
            if hit.tag == 'opaque' and hit[1].startswith('cycle:'):
                self._cuts += 1
            return hit
        if depth > self.maxdepth:
            return T('opaque', 'deep')
        cuts0 = self._cuts
        rds = ix.reaching_defs(l, bb, idx)
        if not rds:
            res = T('opaque', 'undef:%s:_%d' % (body.key, l))
            return self._with_events(body, bb, idx, l, res, depth)
        if len(rds) > 1:
            # loop-carried?  innermost loop containing bb with reaching defs both inside and outside
            cfg = ix.cfg
            for h in reversed(cfg.loop_of.get(bb, [])):
                blocks = cfg.loops[h]
                inside = [d for d in rds if d[0] in blocks]
                outside = [d for d in rds if d[0] not in blocks]
                if inside and outside:
                    res = T('lv', body.key, l, h, ())
                    self._memo[mkey] = res
                    return res
        self._memo[mkey] = T('opaque', 'cycle:%s:_%d' % (body.key, l))   # cut accidental cycles
        ts = []
        for (dbb, didx, kind, node) in rds:
            if kind == 'call':
                ts.append(self._call(body, dbb, node, depth + 1))
            else:
                ts.append(self.rvalue(body, dbb, didx, node['rv'], depth + 1))
        res = mk_phi(ts)
        self._memo[mkey] = res      # while the events are evaluated, a re-entrant read sees the un-mutated value
        res = self._with_events(body, bb, idx, l, res, depth)
        if self._cuts != cuts0 and depth > 0:
            # the value was computed while an enclosing evaluation was cut: do not cache the truncated form
            del self._memo[mkey]
        else:
            self._memo[mkey] = res
        return res

    def _with_events(self, body, bb, idx, l, base, depth):
        """wrap the value of local l at (bb, idx) with the mutation events that may have executed before"""
        ix = self.bx(body)
        evs = ix.events_on(('L', l))
        if not evs:
            return base
        cfg = ix.cfg
        rel = []
        # a whole re-definition of the local kills earlier events (e.g. `let mut label = [..]` at the top of a loop body)
        defs = [(d[0], d[1]) for d in ix.whole_defs(l)] if l > body.argc else []
        multi = len(defs) > 1 or any(cfg.loop_of.get(db) for db, _ in defs)
        for e in evs:
            ebb, eidx = e['bb'], e['idx']
            if ebb == bb and eidx < idx:
                if not any(db == bb and eidx < di < idx for db, di in defs):
                    rel.append(e)
                continue
            if not cfg.reaches(ebb, bb):
                continue
            if multi:
                # killed inside the event's own block or the reading block?
                if any(db == ebb and di > eidx for db, di in defs) or any(db == bb and di < idx for db, di in defs):
                    continue
                avoid = frozenset(db for db, _ in defs if db != ebb and db != bb)
                if avoid and not cfg.reaches(ebb, bb, avoid):
                    continue
            rel.append(e)
        if not rel:
            return base
        ekey = ('ev', body.key, l, bb, idx)
        hit = self._memo.get(ekey)
        if hit is not None:
            return T('mut', base, hit)
        self._memo[ekey] = ()           # cut self-reference (x.push(x.len()))
        cuts0 = self._cuts
        ets = tuple(self.event_term(body, e, depth + 1) for e in rel)
        if self._cuts != cuts0 and depth > 0:
            del self._memo[ekey]
        else:
            self._memo[ekey] = ets
        return T('mut', base, ets)

    APPLIERS = ('std::iter::Iterator::map', 'std::iter::Iterator::for_each', 'std::iter::Iterator::flat_map', 'std::iter::Iterator::filter_map',
                'std::iter::Iterator::any', 'std::iter::Iterator::all', 'std::iter::Iterator::try_for_each', 'std::iter::Iterator::filter',
                'std::iter::Iterator::inspect')

    def applied_to(self, body, bb, cl):
        """iterator term a closure local `cl` (created in block bb) is applied to by an adapter / consumer call, if visible"""
        cfg = self.bx(body).cfg
        seen, work = set(), [bb]
        while work:
            x = work.pop()
            if x in seen or len(seen) > 12:
                continue
            seen.add(x)
            t = body.block[x]['term']
            if t['k'] == 'call':
                args = t['args']
                for i, a in enumerate(args):
                    if a['k'] in ('move', 'copy') and a['place']['l'] == cl and not a['place']['p']:
                        if callee_decl(t) in self.APPLIERS and i == 1:
                            return self.operand(body, x, TERM_IDX, args[0])
                        return None
            work.extend(cfg.succ.get(x, []))
        return None

    FOLDERS = ('std::iter::Iterator::fold', 'std::iter::Iterator::try_fold')

    def applied_env(self, body, bb, cl):
        """{closure parameter index: term} for a closure local handed to an iterator adapter / consumer: the element of the iterator for
        `map` / `for_each` / .. (parameter 2), the accumulator's initial value and the element for `fold` / `try_fold` (parameters 2, 3)"""
        it = self.applied_to(body, bb, cl)
        if it is not None:
            return {2: mk_elem(self, it)}
        cfg = self.bx(body).cfg
        seen, work = set(), [bb]
        while work:
            x = work.pop()
            if x in seen or len(seen) > 12:
                continue
            seen.add(x)
            t = body.block[x]['term']
            if t['k'] == 'call':
                args = t['args']
                for i, a in enumerate(args):
                    if a['k'] in ('move', 'copy') and a['place']['l'] == cl and not a['place']['p']:
                        if callee_decl(t) in self.FOLDERS and i == 2 and len(args) == 3:
                            return {2: self.operand(body, x, TERM_IDX, args[1]), 3: mk_elem(self, self.operand(body, x, TERM_IDX, args[0]))}
                        return {}
            work.extend(cfg.succ.get(x, []))
        return {}

    def event_term(self, body, e, depth=0):
        if e['kind'] == 'closure':
            cb = e['cbody']
            inner = self.event_term(cb, e['inner'], depth + 1)
            env = {}
            for j, o in enumerate(e['captures']):
                env[('upvar', cb.key, j)] = self.operand(body, e['bb'], e['idx'], o, depth + 1)
            if e.get('closure_local') is not None:
                for pi, pt in self.applied_env(body, e['bb'], e['closure_local']).items():
                    env[('param', cb.key, pi)] = pt
            return self.subst(inner, env, ((body.key, e['bb']),))
        site = ((body.key, e['bb']),)
        if e['kind'] == 'store':
            val = self.rvalue(body, e['bb'], e['idx'], e['rv'], depth)
            fields = tuple((x.get('name') or str(x.get('i'))) for x in e['place']['p'] if x['k'] == 'field')
            fp = e.get('fpath') or ()
            if len(fp) > len(fields):
                fields = fp             # stored through a reference that itself points into a field of the object
            return T('ev', 'store', '.'.join(fields), (val,), site + ((e['idx'],),))
        args = tuple(self.operand(body, e['bb'], TERM_IDX, a, depth) for a in e['args'])
        if e.get('fpath'):
            # the call mutates (something inside) that field of the object only
            return T('ev', 'call', e['decl'], args, site, tuple(e['fpath']))
        cal = self.facts.fn.get(e.get('callee'))
        if cal is not None and 'mutarg' in e:
            # a crate-local callee handed the whole object: the fields it can write (summary of its own events on that parameter)
            names = self.mutated_fields(cal, e['mutarg'] + 1)
            if names is not None:
                return T('ev', 'call', e['decl'], args, site, ('~',) + tuple(sorted(names)))
        return T('ev', 'call', e['decl'], args, site)

    def mutated_fields(self, callee, param, depth=0):
        """first-level field names of parameter `param` (a `&mut` to an object) that the callee may write; None = unknown / any"""
        key = (callee.key, param)
        memo = self.__dict__.setdefault('_mutf', {})
        if key in memo:
            return memo[key]
        memo[key] = None            # recursion: unknown
        if depth > 4:
            return None
        names = set()
        for e in self.bx(callee).events_on(('L', param)):
            fp = e.get('fpath') or ()
            if fp:
                names.add(fp[0])
                continue
            if e['kind'] == 'closure':
                inner = e.get('inner', {})
                if inner.get('fpath'):
                    names.add(inner['fpath'][0])
                    continue
                return None
            cal = self.facts.fn.get(e.get('callee'))
            if cal is None or 'mutarg' not in e:
                return None
            sub = self.mutated_fields(cal, e['mutarg'] + 1, depth + 1)
            if sub is None:
                return None
            names |= sub
        memo[key] = names
        return names

    def _unused(self):
        return None

    # ---- rvalues -------------------------------------------------------------------------------
    def rvalue(self, body, bb, idx, rv, depth=0):
        k = rv['k']
        if k == 'use':
            return self.operand(body, bb, idx, rv['op'], depth)
        if k in ('ref', 'copyforderef', 'rawptr'):
            return self.place(body, bb, idx, rv['place'], depth)
        if k == 'cast':
            inner = self.operand(body, bb, idx, rv['op'], depth)
            if 'PointerCoercion' in rv['kind'] or 'Transmute' in rv['kind'] or 'PtrToPtr' in rv['kind']:
                return inner
            return T('cast', rv['ty'], inner)
        if k == 'binop':
            op = rv['op']
            a = self.operand(body, bb, idx, rv['a'], depth)
            b = self.operand(body, bb, idx, rv['b'], depth)
            if op.endswith('WithOverflow'):
                return T('tuple', T('binop', op[:-12], a, b), T('opaque', 'overflow-flag'))
            if op.endswith('Unchecked'):
                op = op[:-9]
            return T('binop', op, a, b)
        if k == 'unop':
            if rv['op'] == 'PtrMetadata':
                return T('call', 'core::slice::<impl [T]>::len', (self.operand(body, bb, idx, rv['a'], depth),), ())
            return T('unop', rv['op'], self.operand(body, bb, idx, rv['a'], depth))
        if k == 'discr':
            return T('discr', self.place(body, bb, idx, rv['place'], depth))
        if k == 'aggregate':
            kind = rv['kind']
            ops = tuple(self.operand(body, bb, idx, o, depth) for o in rv['ops'])
            if kind['a'] == 'adt':
                if kind['path'] == 'std::ops::Range' and len(ops) == 2:
                    return T('range', ops[0], ops[1])
                if kind['path'] == 'std::ops::RangeFrom' and len(ops) == 1:
                    return T('range', ops[0], T('const', None))
                return T('adt', kind['path'] + '::' + kind['variant'], tuple(zip(kind['fields'], ops)))
            if kind['a'] == 'closure':
                # the creation site distinguishes instantiations of one closure body reached through different call chains
                return T('closure', kind['path'], ops, ((body.key, bb),))
            return T(kind['a'], *ops)
        if k == 'repeat':
            return T('repeatv', self.operand(body, bb, idx, rv['op'], depth), rv['n'])
        return T('opaque', k)

    # ---- calls ---------------------------------------------------------------------------------
    def _call(self, body, bb, node, depth):
        args = tuple(self.operand(body, bb, TERM_IDX, a, depth) for a in node['args'])
        site = ((body.key, bb),)
        f = node['func']
        if 'indirect' in f:
            return T('apply', self.operand(body, bb, TERM_IDX, f['indirect'], depth), args)
        return self.mk_call(f['def'], f['res'], bool(f['res_local']) and bool(f['res']), args, site, node)

    SIZES = {'u8': 1, 'i8': 1, 'u16': 2, 'i16': 2, 'u32': 4, 'i32': 4, 'u64': 8, 'i64': 8, 'usize': 8, 'isize': 8, 'u128': 16, 'i128': 16,
             'curve25519_dalek::Scalar': 32, 'curve25519_dalek::ristretto::CompressedRistretto': 32}

    def mk_call(self, decl, res, local, args, site, node=None):
        name = res or decl
        if decl in ('std::mem::size_of', 'core::mem::size_of') and node is not None and not args:
            g = node['func'].get('gargs', [])
            if len(g) == 1 and g[0] in self.SIZES:
                return T('const', self.SIZES[g[0]])
        if decl in ('std::convert::From::from', 'std::convert::Into::into') and len(args) == 1 and res:
            # lossless widening between integer types (`usize::from(x as u8)`) is the cast it stands for
            m_ = re.search(r'<impl (?:std::convert::)?From<(u8|u16|u32|u64|usize|i8|i16|i32|i64|isize|bool)> for (u8|u16|u32|u64|u128|usize|i8|i16|i32|i64|i128|isize)>::from$', res)
            if m_:
                return T('cast', m_.group(2), args[0])
        if decl in ('std::option::Option::<T>::unwrap_or', 'std::result::Result::<T, E>::unwrap_or') and len(args) == 2:
            # the payload when present (wrappers are transparent), the default otherwise
            return mk_phi([args[0], args[1]])
        if decl in ('std::option::Option::<T>::unwrap_or_default', 'std::result::Result::<T, E>::unwrap_or_default') and len(args) == 1 and node is not None:
            g = node['func'].get('gargs', [])
            if g and g[0] in ('u8', 'u16', 'u32', 'u64', 'u128', 'usize', 'i8', 'i16', 'i32', 'i64', 'i128', 'isize'):
                return mk_phi([args[0], T('const', 0)])     # unwrap_or(0)
        if decl in ('std::option::Option::<T>::unwrap_or_else', 'std::result::Result::<T, E>::unwrap_or_else') and len(args) == 2:
            return mk_phi([args[0], self.apply(args[1], ())])
        if decl in TRANSPARENT and args:
            return args[0]
        if decl == 'std::convert::From::from' and 'CtOption' in res:
            return args[0]
        if decl in ('std::convert::From::from', 'std::convert::Into::into') and args and res and 'zeroize::Zeroizing<' in res:
            return args[0]              # Zeroizing::from(x) / x.into() is Zeroizing::new(x): the wrapper is transparent
        if decl == 'std::convert::TryInto::try_into' and node is not None and node['dest']['ty'].startswith('std::result::Result<[u8;'):
            return args[0]
        if decl in ELEM_NEXT:
            return mk_elem(self, args[0])
        if decl in ELEM_AT and len(args) >= 2:
            body_ = self.facts.by_key.get(site[0][0]) if site and len(site[0]) == 2 else None
            r_ = mk_elemat(args[0], args[1], (lambda: self.len_equalities(body_, site[0][1])) if body_ is not None else ())
            return r_
        if decl in ELEM_NAMED:
            return mk_elemat(args[0], T('const', ELEM_NAMED[decl]))
        if decl in PAIR and len(args) == 2:
            return T(PAIR[decl], args[0], args[1])
        if decl == 'std::iter::Iterator::map' and len(args) == 2:
            return T('map', args[0], args[1])
        if decl in ('std::option::Option::<T>::map', 'std::result::Result::<T, E>::map', 'std::result::Result::<T, E>::and_then',
                    'std::option::Option::<T>::and_then') and len(args) == 2:
            return self.apply(args[1], (args[0],))
        if decl in ('std::iter::Iterator::fold', 'std::iter::Iterator::try_fold') and len(args) == 3:
            # a fold whose closure hands its accumulator on (mutated: `acc.push(..)`, `acc += ..`) is a loop filling / updating the
            # initial value: the value is the initial value with the closure's events on the accumulator, per element of the iterator
            f0 = args[2][1] if args[2].tag == 'mut' else args[2]
            if f0.tag == 'closure' and f0[1] in self.facts.fn:
                r = self.apply(f0, (args[1], mk_elem(self, args[0])))
                sv = success_value(r)
                sv = sv if sv is not None else r
                base0, basei = sv, args[1]
                while base0.tag == 'mut':
                    base0 = base0[1]
                while basei.tag == 'mut':
                    basei = basei[1]
                if sv.tag == 'mut' and base0 is basei:
                    return sv
        if decl == 'std::iter::Iterator::enumerate':
            return T('enumerate', args[0])
        if decl == 'std::iter::once':
            return T('once', args[0])
        if decl == 'std::iter::repeat_n' and len(args) == 2:
            return T('repeatv', args[0], args[1])       # repeat(x).take(n)
        if decl in ('std::iter::repeat', 'std::iter::repeat_n'):
            return T('repeat', args[0])
        if decl == 'std::iter::Iterator::flatten':
            return T('flatten', args[0])
        if decl == 'std::iter::Iterator::flat_map':
            # `a.zip(b).flat_map(|(x, y)| [x, y])` walks a and b alternately: what `a.interleave(b)` does for equally long a and b
            z0 = args[0]
            while z0.tag == 'mut':
                z0 = z0[1]
            f0 = args[1][1] if args[1].tag == 'mut' else args[1]
            if z0.tag == 'zip' and f0.tag == 'closure' and f0[1] in self.facts.fn:
                el = mk_elem(self, z0)
                r0 = self.apply(f0, (el,))
                while r0.tag == 'mut':
                    r0 = r0[1]
                if r0.tag == 'array' and len(r0.args) == 2:
                    x0, y0 = r0.args
                    if x0 is project_field(el, '0', 0) and y0 is project_field(el, '1', 1):
                        return T('interleave', z0[1], z0[2])
            return T('flatten', T('map', args[0], args[1]))
        if decl == 'std::iter::Iterator::take' and len(args) == 2:
            src = args[0]
            while src.tag == 'mut':
                src = src[1]
            if src.tag == 'call' and src[1] in ('std::iter::repeat_with', 'core::iter::repeat_with') and src[2]:
                # n values produced by f: a collection defined by its length, not a truncated view of another one
                f0 = src[2][0]
                if f0.tag == 'fnitem':
                    # keep the construction site: two vectors built the same way are still two vectors
                    return T('repeatv', T('call', f0[1], (), src[3]), args[1], 'each-call')
                # (marked: every element is the result of its own call of the closure, unlike `repeat(x).take(n)` which clones one value)
                return T('repeatv', self.apply(f0, ()), args[1], 'each-call')
            if src.tag == 'repeat':
                return T('repeatv', src[1], args[1])
        if decl in ('digest::Update::chain', 'digest::Digest::chain_update') and len(args) == 2:
            # builder style: the hasher after absorbing the data
            ev = T('ev', 'call', 'digest::Update::update', (args[1],), site)
            h = args[0]
            if h.tag == 'mut':
                return T('mut', h[1], tuple(h[2]) + (ev,))
            return T('mut', h, (ev,))
        if decl in ADAPT:
            return T('adapt', _last(decl), *args)
        if decl in ARITH:
            op = ARITH[decl]
            if len(args) == 1:
                return T('unop', op, args[0])
            if len(args) == 2:
                return T('binop', op, args[0], args[1])
        if decl in ('std::ops::Fn::call', 'std::ops::FnMut::call_mut', 'std::ops::FnOnce::call_once') and len(args) == 2:
            a = args[1]
            targs = tuple(a.args) if a.tag == 'tuple' else (a,)
            return self.apply(args[0], targs)
        if local and name in self.facts.fn and self._is_small(self.facts.fn[name]):
            return self.inline(name, args, site)
        return T('call', name if local else decl, args, site)

    def _is_small(self, callee):
        if not self.inline_small:
            return False
        k = callee.key
        if k not in self._small:
            nb = sum(1 for b in callee.blocks if not b['cleanup'])
            ncalls = sum(1 for b in callee.blocks if not b['cleanup'] and b['term']['k'] == 'call')
            nsw = sum(1 for b in callee.blocks if not b['cleanup'] and b['term']['k'] == 'switch')
            # accessor-like: straight-line, at most three calls
            self._small[k] = nb <= 8 and ncalls <= 3 and nsw == 0 and not callee.is_closure
        return self._small[k]

    # ---- interprocedural -----------------------------------------------------------------------
    def return_term(self, body):
        """term of the value returned by a body (phi over all returns), in the body's own context"""
        k = body.key
        if k in self._ret:
            return self._ret[k]
        if k in self._inlining:
            return T('opaque', 'recursion:' + k)
        self._inlining.add(k)
        ix = self.bx(body)
        ts = [self.local(body, r, TERM_IDX, 0, 0) for r in ix.cfg.returns]
        self._inlining.discard(k)
        res = mk_phi(ts) if ts else T('opaque', 'noreturn')
        self._ret[k] = res
        return res

    def inline(self, name, args, site):
        callee = self.facts.fn[name]
        rt = self.return_term(callee)
        env = {('param', callee.key, i + 1): a for i, a in enumerate(args)}
        return self.subst(rt, env, site)

    def apply(self, f, args):
        """application of a closure term to argument terms"""
        if f.tag == 'mut':
            f = f[1]
        if f.tag == 'closure' and f[1] in self.facts.fn:
            cb = self.facts.fn[f[1]]
            rt = self.return_term(cb)
            env = {}
            for i, a in enumerate(args):
                env[('param', cb.key, i + 2)] = a
            for j, c in enumerate(f[2]):
                env[('upvar', cb.key, j)] = c
            return self.subst(rt, env, tuple(f[3]) if len(f.args) > 2 else ())
        if f.tag == 'phi':
            return mk_phi([self.apply(x, args) for x in f.args])
        if f.tag == 'fnitem':
            fn = f[1]
            if fn in self.facts.fn and self._is_small(self.facts.fn[fn]):
                return self.inline(fn, args, ())
            return T('call', fn, tuple(args), ())
        return T('apply', f, tuple(args))

    def expand(self, t, depth=3, stop=()):
        """replace calls of crate-local functions by the success value of their inlined return term (helpers are transparent)"""
        memo = {}

        def go(x, d):
            if not is_term(x):
                if isinstance(x, tuple):
                    return tuple(go(y, d) for y in x)
                return x
            k = (x.id, d)
            if k in memo:
                return memo[k]
            tag = x.tag
            if tag in ('const', 'item', 'fnitem', 'static', 'opaque', 'scalar', 'param', 'upvar', 'lv'):
                r = x
            elif tag == 'call':
                args = go(x[2], d)
                r = None
                if d > 0 and x[1] in self.facts.fn and x[1] not in stop and x[1] not in self._inlining_names and not self.facts.fn[x[1]].impl_trait:
                    self._inlining_names.add(x[1])
                    try:
                        inl = self.inline(x[1], args, x[3])
                        sv = success_value(inl[1] if inl.tag == 'mut' and not inl[2] else inl)
                        r = go(sv if sv is not None else inl, d - 1)
                    finally:
                        self._inlining_names.discard(x[1])
                if r is None:
                    r = T('call', x[1], args, x[3])
            elif tag == 'ev':
                r = T('ev', x[1], x[2], go(x[3], d), x[4], *x.args[4:])
            else:
                r = renorm(self, tag, tuple(go(y, d) for y in x.args))
            memo[k] = r
            return r
        return go(t, depth)

    def lv_defs(self, lv):
        """terms of every whole definition (initial and in-loop) of a loop-carried variable atom, plus its events"""
        body = self.facts.by_key.get(lv[1])
        if body is None:
            return []
        ix = self.bx(body)
        out = []
        for (dbb, didx, kind, node) in ix.whole_defs(lv[2]):
            if kind == 'call':
                out.append(self._call(body, dbb, node, 1))
            else:
                out.append(self.rvalue(body, dbb, didx, node['rv'], 1))
        for e in ix.events_on(('L', lv[2])):
            out.append(self.event_term(body, e, 1))
        site = lv[4]
        if site:
            out = [self.subst(t, {}, site) for t in out]
        return out

    def subst_term(self, t, old, new):
        """replace every occurrence of sub-term `old` in t by `new`"""
        memo = {old.id: new}

        def go(x):
            if not is_term(x):
                if isinstance(x, tuple):
                    return tuple(go(y) for y in x)
                return x
            h = memo.get(x.id)
            if h is not None:
                return h
            if x.tag in ('param', 'upvar', 'const', 'item', 'fnitem', 'static', 'opaque', 'scalar'):
                r = x
            elif x.tag in ('call', 'ev', 'lv'):
                r = T(x.tag, *[go(a) for a in x.args])
            else:
                r = renorm(self, x.tag, tuple(go(a) for a in x.args))
            memo[x.id] = r
            return r
        return go(t)

    def subst(self, t, env, site, memo=None):
        """substitute params / upvars by env and prefix call sites with `site`"""
        if memo is None:
            memo = {}
        return _subst(self, t, env, site, memo)


def _subst(eng, t, env, site, memo):
    if not is_term(t):
        if isinstance(t, tuple):
            return tuple(_subst(eng, x, env, site, memo) for x in t)
        return t
    hit = memo.get(t.id)
    if hit is not None:
        return hit
    tag = t.tag
    if tag == 'param':
        r = env.get(('param', t[1], t[2]), t)
    elif tag == 'upvar':
        r = env.get(('upvar', t[1], t[2]), t)
    elif tag in ('const', 'item', 'fnitem', 'static', 'opaque', 'scalar'):
        r = t
    elif tag == 'call':
        r = T('call', t[1], _subst(eng, t[2], env, site, memo), site + t[3])
    elif tag == 'closure' and len(t.args) > 2:
        r = T('closure', t[1], _subst(eng, t[2], env, site, memo), site + tuple(t[3]))
    elif tag == 'ev':
        r = T('ev', t[1], t[2], _subst(eng, t[3], env, site, memo), site + t[4], *t.args[4:])
    elif tag == 'lv':
        r = T('lv', t[1], t[2], t[3], site + t[4])
    else:
        nargs = tuple(_subst(eng, x, env, site, memo) for x in t.args)
        r = renorm(eng, tag, nargs)
    memo[t.id] = r
    return r


def renorm(eng, tag, args):
    """re-apply the smart constructors after substitution (a bound variable may now be reducible)"""
    if tag == 'elem':
        return mk_elem(eng, args[0])
    if tag == 'elemat':
        return mk_elemat(args[0], args[1])
    if tag == 'field':
        return project_field(args[1], args[0], int(args[0]) if args[0].isdigit() else -1)
    if tag == 'variant':
        return project_variant(args[1], args[0])
    if tag == 'unwrap':
        return unwrap_variant(args[1], args[0])
    if tag == 'via':
        return mk_via(args[0], args[1])
    if tag == 'apply':
        return eng.apply(args[0], args[1])
    if tag == 'phi':
        return mk_phi(list(args))
    return T(tag, *args)


# ---- smart constructors ----------------------------------------------------------------------------

def mk_phi(ts):
    flat = []
    for t in ts:
        if t.tag == 'phi':
            flat.extend(t.args)
        else:
            flat.append(t)
    flat = list(dict.fromkeys(flat))
    if len(flat) == 1:
        return flat[0]
    return T('phi', *flat)


def mk_elem(eng, it):
    tag = it.tag
    if tag == 'zip':
        return T('tuple', mk_elem(eng, it[1]), mk_elem(eng, it[2]))
    if tag == 'map':
        return eng.apply(it[2], (mk_elem(eng, it[1]),))
    if tag == 'enumerate':
        return T('tuple', T('index', it[1]), mk_elem(eng, it[1]))
    if tag in ('chain', 'interleave'):
        return mk_phi([mk_elem(eng, it[1]), mk_elem(eng, it[2])])
    if tag in ('once', 'repeat'):
        return it[1]
    if tag == 'flatten':
        return mk_elem(eng, mk_elem(eng, it[1]))
    if tag == 'range':
        # the position counter of an index loop over a collection is the counter of walking that collection
        v = index_view(it)
        return T('index', v if v is not None and it[1].tag == 'const' and it[1][1] == 0 else it)
    if tag == 'phi':
        return mk_phi([mk_elem(eng, x) for x in it.args])
    if tag == 'adapt' and it[1] in ELEMENT_PRESERVING and len(it.args) >= 2:
        return mk_via(it[1], mk_elem(eng, it[2]))
    if tag == 'mut':
        # an iterator local advanced by next(): element of the underlying iterator
        if it[1].tag in ('zip', 'map', 'enumerate', 'chain', 'interleave', 'once', 'repeat', 'flatten', 'range', 'adapt'):
            return mk_elem(eng, it[1])
        c = container_content(eng, it)
        if c is not None:
            return c
    return T('elem', it)


EMPTY_CTORS = ('std::vec::Vec::<T>::with_capacity', 'std::vec::Vec::<T>::new', 'std::default::Default::default')
FILL_EVENTS = {'std::vec::Vec::<T, A>::push': 'one', 'std::iter::Extend::extend': 'many',
               'std::vec::Vec::<T, A>::extend_from_slice': 'many', 'std::vec::Vec::<T, A>::append': 'many'}


def container_content(eng, m):
    """element term of a vector that starts empty and is only ever filled by push / extend (content model)"""
    base, evs = m[1], m[2]
    if not (base.tag == 'call' and base[1] in EMPTY_CTORS):
        return None
    outs = []
    for e in evs:
        if e.tag != 'ev' or e[1] != 'call' or e[2] not in FILL_EVENTS or not e[3]:
            return None
        if FILL_EVENTS[e[2]] == 'one':
            outs.append(e[3][0])
        else:
            outs.append(mk_elem(eng, e[3][0]))
    if not outs:
        return None
    return mk_phi(outs)


# adapters that select / reorder elements but leave each element unchanged
ELEMENT_PRESERVING = {'rev', 'skip', 'take', 'step_by', 'filter', 'skip_while', 'take_while', 'cycle'}


def mk_via(name, t):
    """element reached through an order/extent-changing adapter: the tag is kept on every component"""
    if t.tag == 'tuple':
        return T('tuple', *[mk_via(name, x) for x in t.args])
    if t.tag == 'phi':
        return mk_phi([mk_via(name, x) for x in t.args])
    return T('via', name, t)


def index_view(r):
    """the iterator an index range stands for: `0..x.len()` walks x, `0..min(x.len(), y.len())` walks x and y together (zip),
    `1..x.len()` walks x.iter().skip(1); None for any other range"""
    if r.tag != 'range':
        return None
    lo, hi = r[1], r[2]
    if not (lo.tag == 'const' and isinstance(lo[1], int) and not isinstance(lo[1], bool) and lo[1] >= 0):
        return None

    def colls(h):
        while h.tag == 'cast':
            h = h[2]
        if h.tag == 'call' and h[1].split('::')[-1] == 'len' and len(h[2]) == 1:
            c = h[2][0]
            return [c]
        if h.tag == 'call' and h[1].split('::')[-1] == 'min' and len(h[2]) == 2:
            a, b = colls(h[2][0]), colls(h[2][1])
            if a is None or b is None:
                return None
            return a + b
        return None
    cs = colls(hi)
    if not cs:
        return None
    view = cs[0]
    for c in cs[1:]:
        view = T('zip', view, c)
    if lo[1] > 0:
        view = T('adapt', 'skip', view, lo)
    return view


def _view_component(view, coll):
    """is `coll` one of the collections walked by the view (through zip / skip)?"""
    v = view
    skip = False
    if v.tag == 'adapt' and v[1] == 'skip':
        v, skip = v[2], True
    stack = [v]
    while stack:
        x = stack.pop()
        if x.tag == 'zip':
            stack.extend([x[1], x[2]])
        elif _same_collection(x, coll):
            return True, skip
    return False, skip


def window_of(rng, eng):
    """(collection Y, chunk size C) when `rng` = lv .. min(lv + C, len(Y)) and lv is a loop-carried cursor that starts at 0 and is set
    to that upper bound at the end of every iteration: the slices X[rng] of successive iterations are the chunks of size C of X
    (`while start < n { let end = (start + C).min(n); f(&x[start..end]); start = end }` is `for c in x.chunks(C) { f(c) }`).
    Whether the loop runs to exhaustion is a question about its exit test, answered where loops are classified."""
    if rng.tag != 'range' or eng is None:
        return None
    lo, hi = rng[1], rng[2]
    if lo.tag != 'lv' or hi.tag != 'call' or hi[1].split('::')[-1] != 'min' or len(hi[2]) != 2:
        return None
    for step, bound in ((hi[2][0], hi[2][1]), (hi[2][1], hi[2][0])):
        st = step
        if st.tag == 'call' and st[1].split('::')[-1] in ('saturating_add', 'wrapping_add') and len(st[2]) == 2:
            a, c = st[2]
        elif st.tag == 'binop' and st[1] == 'Add':
            a, c = st[2], st[3]
        else:
            continue
        if a is not lo:
            a, c = c, a
        if a is not lo or c.tag != 'const' or not isinstance(c[1], int) or isinstance(c[1], bool) or c[1] < 1:
            continue
        if not (bound.tag == 'call' and bound[1].split('::')[-1] == 'len' and len(bound[2]) == 1):
            continue
        try:
            defs = eng.lv_defs(lo)
        except Exception:
            return None
        inits = [d for d in defs if d.tag == 'const' and d[1] == 0 and not isinstance(d[1], bool)]
        upds = [d for d in defs if d is hi]
        if len(defs) == 2 and len(inits) == 1 and len(upds) == 1:
            return bound[2][0], c
    return None


def _equal_length(eqs, a, b):
    """do the established length equalities (pairs, closed under transitivity) relate collections a and b?"""
    pairs = list(eqs() if callable(eqs) else eqs)
    reach = [a]
    changed = True
    while changed:
        changed = False
        for x, y in pairs:
            for p_, q_ in ((x, y), (y, x)):
                if any(_same_collection(p_, r) for r in reach) and not any(_same_collection(q_, r) for r in reach):
                    reach.append(q_)
                    changed = True
    return any(_same_collection(b, r) for r in reach)


def _same_collection(a, b):
    while a.tag == 'mut':
        a = a[1]
    while b.tag == 'mut':
        b = b[1]
    return a is b


def mk_elemat(coll, i, eqs=()):
    """element selection.  `eqs`: pairs of collection terms known (by a dominating guard) to have the same length at this point"""
    # `for i in 0..x.len() { .. x[i] .. }` visits each element of x in order, like `for e in x`; from 1: like `x.iter().skip(1)`
    # `x[x.len() - 1 - i]` under `for i in 0..x.len()` (or a zip-like bound that includes x): the elements of x from the back
    if i.tag == 'binop' and i[1] == 'Sub' and CURRENT is not None:
        a, b = i[2], i[3]
        if a.tag == 'binop' and a[1] == 'Sub' and a[3].tag == 'const' and a[3][1] == 1 and a[2].tag == 'call' and a[2][1].split('::')[-1] == 'len' \
                and len(a[2][2]) == 1 and _same_collection(a[2][2][0], coll) and b.tag == 'index':
            view = index_view(b[1]) if b[1].tag == 'range' else b[1]
            if view is not None and view.tag != 'range':
                ok, skip = _view_component(view, coll)
                if ok and not skip:
                    return mk_via('rev', mk_elem(CURRENT, coll))
    if i.tag == 'index' and CURRENT is not None:
        view = index_view(i[1]) if i[1].tag == 'range' else i[1]
        if view is not None and view.tag != 'range':
            ok, skip = _view_component(view, coll)
            if not ok:
                # indexed with the counter of a walk over another collection that a dominating guard makes equally long
                pairs_ = list(eqs() if callable(eqs) else eqs)
                cands_ = {id(t_): t_ for pr in pairs_ for t_ in pr}
                for y in cands_.values():
                    if _view_component(view, y)[0] and _equal_length(pairs_, y, coll):
                        ok, skip = True, _view_component(view, y)[1]
            if ok:
                el = mk_elem(CURRENT, coll)
                return mk_via('skip', el) if skip else el
    if i.tag == 'range' and i[1].tag == 'lv' and CURRENT is not None:
        w = window_of(i, CURRENT)
        if w is not None:
            Y, C = w
            ok = _same_collection(Y, coll) or _equal_length(eqs, Y, coll)
            if ok:
                return T('elem', T('adapt', 'chunks', coll, C))
    return T('elemat', coll, i)


def project_field(t, name, i):
    tag = t.tag
    if tag == 'adt':
        for fname, ft in t[2]:
            if fname == name:
                return ft
        if 0 <= i < len(t[2]):
            return t[2][i][1]
    if tag in ('tuple', 'array') and 0 <= i < len(t.args):
        return t.args[i]
    if tag == 'closure' and 0 <= i < len(t[2]):
        return t[2][i]                  # a captured variable read back from the closure value (a closure body spliced at its call)
    if tag == 'phi':
        return mk_phi([project_field(x, name, i) for x in t.args])
    if tag == 'mut':
        base = project_field(t[1], name, i)
        if not (base.tag == 'field' and base[2] is t[1]):
            stored = [e[3][0] for e in t[2] if e.tag == 'ev' and e[1] == 'store' and e[2] == name and e[3]]
            # events inside that field: in-place calls on it (`obj.f.push(x)`) and stores below it (`obj.f.g = x`), re-rooted at the field;
            # calls on the whole object (no path) may touch every field
            inner = []
            for e in t[2]:
                if e.tag != 'ev':
                    continue
                if e[1] == 'call':
                    fp = e.args[4] if len(e.args) > 4 else ()
                    if not fp:
                        inner.append(e)
                    elif fp[0] == '~':
                        if name in fp[1:]:
                            inner.append(e)
                    elif fp[0] == name:
                        inner.append(T('ev', 'call', e[2], e[3], e[4], *((tuple(fp[1:]),) if len(fp) > 1 else ())))
                elif e[1] == 'store' and e[2].split('.')[0] == name and '.' in e[2]:
                    inner.append(T('ev', 'store', e[2].split('.', 1)[1], e[3], e[4]))
            val = mk_phi([base] + stored) if stored else base
            if inner:
                return T('mut', val, tuple(inner))
            return val
    if tag == 'via':
        return T('via', t[1], project_field(t[2], name, i))
    if tag == 'adapt' and t[1] == 'split_first' and i in (0, 1):
        # (first, rest): the same data as first() and iter().skip(1)
        return mk_elemat(t[2], T('const', 'first')) if i == 0 else T('adapt', 'skip', t[2], T('const', 1))
    if tag == 'call' and CURRENT is not None and t[1] in CURRENT.facts.fn and (t.id, name) not in _PROJ_BUSY:
        # field of the value returned by a crate-local constructor: look through the constructor
        _PROJ_BUSY.add((t.id, name))
        try:
            inl = CURRENT.inline(t[1], t[2], t[3])
            base = success_value(inl[1] if inl.tag == 'mut' else inl)
            if base is not None and (base.tag == 'adt' or (base.tag == 'phi' and all(x.tag == 'adt' for x in base.args))):
                r = project_field(base, name, i)
                if not (r.tag == 'field' and r[2] is base):
                    return r
        finally:
            _PROJ_BUSY.discard((t.id, name))
    return T('field', name, t)


def success_value(t):
    """the value on the success path of a term of type Result / Option: Ok / Some payloads, error alternatives dropped"""
    alts = list(t.args) if t.tag == 'phi' else [t]
    keep = []
    for x in alts:
        if x.tag == 'adt':
            last = x[1].split('::')[-1]
            if last in ('Err', 'None'):
                continue
            if last in ('Ok', 'Some') and x[2]:
                keep.append(x[2][0][1])
                continue
            keep.append(x)
        elif x.tag == 'call' and x[1].split('::')[-1] in ('from_residual',):
            continue
        else:
            keep.append(x)
    if not keep:
        return None
    return mk_phi(keep)


def project_variant(t, v):
    if t.tag == 'adt' and t[1].endswith('::' + v):
        return t
    if t.tag == 'phi':
        keep = [x for x in t.args if not (x.tag == 'adt' and not x[1].endswith('::' + v))]
        if keep:
            return mk_phi([project_variant(x, v) for x in keep])
    return T('variant', v, t)


SUCCESS_VARIANTS = ('Some', 'Ok', 'Continue')
FAILURE_VARIANTS = ('None', 'Err', 'Break')


def unwrap_variant(t, v):
    """payload of Some / Ok / Continue: Option / Result / ControlFlow wrappers are transparent on the success path
    (`?` is modelled as the identity there), error alternatives are dropped"""
    if v in SUCCESS_VARIANTS:
        sv = success_value(t)
        if sv is None:
            return T('opaque', 'variant-mismatch')
        return sv
    if t.tag == 'adt':
        if t[1].endswith('::' + v) and t[2]:
            return t[2][0][1]
        return T('opaque', 'variant-mismatch')
    return T('field', '0', T('variant', v, t))


# ---- traversal -------------------------------------------------------------------------------------

def walk(t, seen=None):
    """pre-order iteration over distinct sub-terms"""
    if seen is None:
        seen = set()
    stack = [t]
    while stack:
        x = stack.pop()
        if is_term(x):
            if x.id in seen:
                continue
            seen.add(x.id)
            yield x
            stack.extend(reversed(x.args))
        elif isinstance(x, tuple):
            stack.extend(reversed(x))


def contains(t, pred):
    for x in walk(t):
        if pred(x):
            return True
    return False


def find_all(t, pred):
    return [x for x in walk(t) if pred(x)]


def calls_in(t, name_part=None):
    return [x for x in walk(t) if x.tag == 'call' and (name_part is None or name_part in x[1])]


def size(t):
    return sum(1 for _ in walk(t))


def short(t, n=240):
    s = fmt(t)
    return s if len(s) <= n else s[:n] + '…'


def _nm(name):
    if '>::' in name:
        return name.split('>::')[-1]
    return name.split('::')[-1]


def fmt(t, depth=0):
    if not is_term(t):
        if isinstance(t, tuple):
            return '(' + ', '.join(fmt(x, depth + 1) for x in t) + ')'
        return repr(t)
    if depth > 14:
        return '…'
    k = t.tag
    d = depth + 1
    if k == 'param': return '%s' % t[3]
    if k == 'upvar': return '^%s' % (t[3] or t[2])
    if k == 'const': return repr(t[1])
    if k == 'scalar': return 'S%d' % t[1]
    if k == 'item': return t[1].split('::')[-1]
    if k == 'static': return 'static:' + t[1].split('::')[-1]
    if k == 'fnitem': return 'fn:' + _nm(t[1])
    if k == 'field': return '%s.%s' % (fmt(t[2], d), t[1])
    if k == 'variant': return '(%s as %s)' % (fmt(t[2], d), t[1])
    if k == 'elem': return '%s[*]' % fmt(t[1], d)
    if k == 'elemat': return '%s[%s]' % (fmt(t[1], d), fmt(t[2], d))
    if k == 'index': return 'idx(%s)' % fmt(t[1], d)
    if k == 'call':
        site = t[3]
        st = '@%s' % site[-1][1] if site else ''
        return '%s%s(%s)' % (_nm(t[1]), st, ', '.join(fmt(a, d) for a in t[2]))
    if k == 'closure': return 'closure[%s](%s)' % (t[1].split('::')[-1], ', '.join(fmt(a, d) for a in t[2]))
    if k == 'adt': return '%s{%s}' % ('::'.join(t[1].split('::')[-2:]), ', '.join('%s: %s' % (f, fmt(x, d)) for f, x in t[2]))
    if k == 'binop': return '(%s %s %s)' % (fmt(t[2], d), t[1], fmt(t[3], d))
    if k == 'unop': return '%s(%s)' % (t[1], fmt(t[2], d))
    if k == 'cast': return '(%s as %s)' % (fmt(t[2], d), t[1])
    if k == 'discr': return 'discr(%s)' % fmt(t[1], d)
    if k == 'phi': return 'phi(%s)' % ' | '.join(fmt(a, d) for a in t.args)
    if k == 'lv': return 'lv_%s@%s' % (t[2], t[3])
    if k == 'mut': return 'mut(%s; %s)' % (fmt(t[1], d), ', '.join(fmt(e, d) for e in t[2]))
    if k == 'ev':
        return '%s%s(%s)' % (_nm(t[2]) if t[1] == 'call' else 'store.' + t[2], '@%s' % (t[4][-1][1] if t[1] == 'call' else t[4][-2][1]), ', '.join(fmt(a, d) for a in t[3]))
    if k == 'opaque': return '?%s' % t[1]
    if k == 'via': return '%s<%s>' % (fmt(t[2], d), t[1])
    return '%s(%s)' % (k, ', '.join(fmt(a, d) for a in t.args))
