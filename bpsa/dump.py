"""Debug pretty-printer for MIR facts: python3 -m bpsa.dump <facts.json> <fn path suffix> [label]"""
import sys
from .facts import Facts, callee_name


def fplace(body, p):
    s = '_%d' % p['l']
    n = body.local_name(p['l'])
    if n:
        s += '(%s)' % n
    for e in p['p']:
        k = e['k']
        if k == 'deref':
            s = '(*%s)' % s
        elif k == 'field':
            s += '.%s' % (e['name'] or e['i'])
        elif k == 'downcast':
            s += ' as %s' % e['variant']
        elif k == 'index':
            s += '[_%d]' % e['l']
        elif k == 'cindex':
            s += '[c%d]' % e['off']
        else:
            s += '<%s>' % k
    return s


def fop(body, o):
    if o['k'] in ('copy', 'move'):
        return ('move ' if o['k'] == 'move' else '') + fplace(body, o['place'])
    if o['k'] == 'const':
        if 'str' in o:
            return 'const %r' % o['str']
        if 'fn' in o:
            return 'fn %s' % o['fn']
        if 'promoted' in o:
            return 'promoted[%s#%d]' % (o['item'].split('::')[-1], o['promoted'])
        if 'item' in o:
            return 'item %s' % o['item']
        if 'sint' in o:
            return 'const %s_%s' % (o['sint'], o['ty'])
        if 'int' in o:
            return 'const %s_%s' % (o['int'], o['ty'])
        if 'bytes' in o:
            return 'const bytes %s' % o['bytes'][:80]
        return 'const <%s>' % o['ty']
    return '?'


def frv(body, rv):
    k = rv['k']
    if k == 'use':
        return fop(body, rv['op'])
    if k == 'ref':
        return '&%s%s' % ('mut ' if rv['mut'] else '', fplace(body, rv['place']))
    if k == 'copyforderef':
        return 'deref_copy %s' % fplace(body, rv['place'])
    if k == 'cast':
        return '%s as %s (%s)' % (fop(body, rv['op']), rv['ty'], rv['kind'])
    if k == 'binop':
        return '%s(%s, %s)' % (rv['op'], fop(body, rv['a']), fop(body, rv['b']))
    if k == 'unop':
        return '%s(%s)' % (rv['op'], fop(body, rv['a']))
    if k == 'discr':
        return 'discriminant(%s)' % fplace(body, rv['place'])
    if k == 'aggregate':
        kd = rv['kind']
        nm = kd['a']
        if nm == 'adt':
            nm = kd['path'] + '::' + kd['variant']
        elif nm == 'closure':
            nm = 'closure ' + kd['path']
        return '%s{%s}' % (nm, ', '.join(fop(body, o) for o in rv['ops']))
    if k == 'repeat':
        return '[%s; %s]' % (fop(body, rv['op']), rv['n'])
    return k + ' ' + rv.get('dbg', '')


def dump(body, out=sys.stdout):
    w = out.write
    w('fn %s [%s] argc=%d\n' % (body.path, body.label, body.argc))
    for l in body.locals:
        w('  let _%d: %s%s\n' % (l['i'], l['ty'], '  // %s' % l['name'] if l.get('name') else ''))
    for u in body.upvars:
        w('  upvar %s = %s\n' % (u['name'], fplace(body, u['place'])))
    for b in body.blocks:
        w(' bb%d%s:\n' % (b['i'], ' (cleanup)' if b['cleanup'] else ''))
        for s in b['stmts']:
            if s['k'] == 'assign':
                w('    %s = %s   @%d\n' % (fplace(body, s['place']), frv(body, s['rv']), s['line']))
            elif s['k'] in ('live', 'dead'):
                pass
            else:
                w('    %s\n' % s)
        t = b['term']
        k = t['k']
        if k == 'call':
            w('    %s = %s(%s) -> bb%d   @%d\n' % (fplace(body, t['dest']), callee_name(t), ', '.join(fop(body, a) for a in t['args']), t['target'], t['span']['l0']))
        elif k == 'switch':
            w('    switch %s %s else bb%d\n' % (fop(body, t['discr']), ' '.join('%s->bb%d' % (v, x) for v, x in t['arms']), t['otherwise']))
        elif k == 'goto':
            w('    goto bb%d\n' % t['target'])
        elif k == 'drop':
            w('    drop(%s) -> bb%d  [%s needs=%s]\n' % (fplace(body, t['place']), t['target'], t['place']['ty'], t['needs_drop']))
        elif k == 'assert':
            w('    assert(%s == %s, %s) -> bb%d\n' % (fop(body, t['cond']), t['expected'], t['kind'], t['target']))
        else:
            w('    %s\n' % k)


if __name__ == '__main__':
    f = Facts(sys.argv[1])
    lab = sys.argv[3] if len(sys.argv) > 3 else 'fn'
    for b in f.bodies:
        if b.path.endswith(sys.argv[2]) and b.label == lab:
            dump(b)
