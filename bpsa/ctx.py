"""Query helpers shared by the rule modules."""
import collections
from .facts import callee_name, callee_decl, callee_is_local
from .cfg import const_switch_value
from .terms import T, Term, walk, fmt, short, TERM_IDX, contains, find_all, ELEM_NEXT


class Guard(object):
    """a conditional edge into the reject region (blocks from which only `Err`/`None` results are reachable)"""

    def __init__(self, body, bb, cond, reject_vals, pass_vals, reject_targets, pass_targets, span, discr_ty=None):
        self.body = body
        self.discr_ty = discr_ty
        self.bb = bb
        self.cond = cond                    # Term of the switch operand
        self.reject_vals = reject_vals      # arm values ('otherwise' or int strings) leading to rejection
        self.pass_vals = pass_vals
        self.reject_targets = reject_targets
        self.pass_targets = pass_targets
        self.span = span
        self.cond_ty = None                 # type of the switch operand (bool, an integer type, ...)

    @property
    def line(self):
        return self.span['l0']

    def reject_when_true(self):
        """for boolean conditions: does the *true* value reject?"""
        return 'otherwise' in self.reject_vals and '0' in self.pass_vals

    def reject_when_false(self):
        return '0' in self.reject_vals and 'otherwise' in self.pass_vals

    def __repr__(self):
        return '<Guard bb%d line %d reject=%s cond=%s>' % (self.bb, self.line, self.reject_vals, short(self.cond, 160))


class Loop(object):
    def __init__(self, body, header, blocks):
        self.body = body
        self.header = header
        self.blocks = blocks
        self.driver_bb = None       # block of the Iterator::next call that drives the loop
        self.iter_term = None       # term of the iterator being advanced
        self.exit_targets = set()   # normal successors outside the loop
        self.exits = []             # (from block, to block)
        self.driver_only_exit = False

    def __repr__(self):
        return '<Loop h=bb%d n=%d iter=%s>' % (self.header, len(self.blocks), short(self.iter_term, 120) if self.iter_term is not None else None)


class Frame(object):
    """one body as instantiated on a call chain from a root body: terms of the body are rewritten (`lift`) into the root's
    vocabulary (parameters replaced by the call's arguments, closure upvars by the captured values).  Lets a rule treat
    crate-local helpers and closures as if they were written inline in the root."""

    def __init__(self, ctx, body, env, site, parent, at_bb, kind):
        self.ctx, self.body, self.env, self.site, self.parent, self.at_bb, self.kind = ctx, body, env, site, parent, at_bb, kind

    def lift(self, t):
        if not self.env and not self.site:
            return t
        return self.ctx.eng.subst(t, self.env, self.site)

    def calls(self):
        return self.ctx.calls(self.body)

    def args(self, bb):
        return [self.lift(a) for a in self.ctx.args(self.body, bb)]

    def result(self, bb):
        return self.lift(self.ctx.result(self.body, bb))

    def path_conditions(self, bb):
        """[(frame, switch block, lifted cond, arms, targets)] from this block up to the root's entry"""
        out = [(self, sw, self.lift(c), arms, tg) for (sw, c, arms, tg) in self.ctx.path_conditions(self.body, bb)]
        if self.parent is not None:
            out += self.parent.path_conditions(self.at_bb)
        return out

    def loops(self, bb):
        """[(frame, loop, lifted iterator term)] outermost first, across the call chain"""
        mine = [(self, lp, self.lift(lp.iter_term) if lp.iter_term is not None else None) for lp in self.ctx.enclosing_loops(self.body, bb)]
        return (self.parent.loops(self.at_bb) if self.parent is not None else []) + mine

    def chain(self):
        return (self.parent.chain() if self.parent is not None else []) + [self]

    def __repr__(self):
        return '<Frame %s%s>' % (self.body.path.split('::')[-1], ' <- ' + repr(self.parent) if self.parent is not None else '')


class Ctx(object):
    def __init__(self, facts, eng, rep, cfg, tier):
        self.facts = facts
        self.eng = eng
        self.rep = rep
        self.cfg = cfg
        self.tier = tier
        self._guards = {}
        self._loops = {}
        self._out = {}

    # ---- lookup -----------------------------------------------------------------------------------
    def fn(self, suffix, rule=None, required=True):
        hits = self.facts.find_fn(suffix)
        hits = [h for h in hits if h.path.endswith('::' + suffix) or h.path == suffix]
        if len(hits) == 1:
            self.rep.saw_body(hits[0])
            return hits[0]
        if required:
            self.rep.anchor_missing(rule or 'anchor', 'anchor/fn/%s' % suffix, 'expected exactly one function %s, found %d' % (suffix, len(hits)))
        return None

    def cfgof(self, body):
        return self.eng.bx(body).cfg

    def where(self, body, bb=None, line=None):
        if line is None and bb is not None:
            t = body.block[bb]['term']
            sp = t.get('span')
            if sp:
                line = sp['l0']
            elif body.block[bb]['stmts']:
                for s in body.block[bb]['stmts']:
                    if 'line' in s:
                        line = s['line']
                        break
        return '%s:%s (%s%s)' % (body.file(), line if line is not None else '?', body.path, '' if bb is None else ' bb%d' % bb)

    def calls(self, body, decl=None, contains=None, res_contains=None):
        """[(bb, terminator)] of non-cleanup, reachable call sites filtered by declared path"""
        cfg = self.cfgof(body)
        out = []
        for bb, t in body.calls():
            if bb not in cfg.reach_set:
                continue
            d = callee_decl(t)
            if decl is not None and d != decl:
                continue
            if contains is not None and contains not in d and contains not in callee_name(t):
                continue
            if res_contains is not None and res_contains not in callee_name(t):
                continue
            out.append((bb, t))
        return out

    def frames(self, root, depth=2, stop=()):
        """the root body and, transitively to `depth`, the crate-local non-trait helpers it calls and the closures it creates,
        each as a Frame whose terms can be lifted into the root's vocabulary"""
        key = (root.key, depth, tuple(sorted(stop)))
        cache = self.__dict__.setdefault('_frames', {})
        if key in cache:
            return cache[key]
        from .terms import mk_elem
        out = [Frame(self, root, {}, (), None, None, 'root')]
        work = [(out[0], depth)]
        while work and len(out) < 80:
            fr, d = work.pop(0)
            if d <= 0:
                continue
            b = fr.body
            onchain = {f.body.key for f in fr.chain()}
            for bb, t in self.calls(b):
                nm = callee_name(t)
                cal = self.facts.fn.get(nm)
                if cal is None or cal.impl_trait or cal.is_closure or cal.key in onchain or nm in stop:
                    continue
                env = {('param', cal.key, i + 1): a for i, a in enumerate(fr.args(bb))}
                f2 = Frame(self, cal, env, fr.site + ((b.key, bb),), fr, bb, 'call')
                out.append(f2)
                work.append((f2, d - 1))
            for blk in b.blocks:
                if blk['cleanup'] or blk['i'] not in self.cfgof(b).reach_set:
                    continue
                for si, st in enumerate(blk['stmts']):
                    if st['k'] == 'assign' and st['rv']['k'] == 'aggregate' and st['rv']['kind'].get('a') == 'closure':
                        cb = self.facts.fn.get(st['rv']['kind']['path'])
                        if cb is None or cb.key in onchain:
                            continue
                        env = {}
                        for j, o in enumerate(st['rv']['ops']):
                            env[('upvar', cb.key, j)] = fr.lift(self.eng.operand(b, blk['i'], si, o))
                        if not st['place']['p']:
                            for pi, pt in self.eng.applied_env(b, blk['i'], st['place']['l']).items():
                                env[('param', cb.key, pi)] = fr.lift(pt)
                        f2 = Frame(self, cb, env, fr.site + ((b.key, blk['i']),), fr, blk['i'], 'closure')
                        out.append(f2)
                        work.append((f2, d - 1))
        cache[key] = out
        return out

    def flat_calls(self, root, pred, depth=2, stop=()):
        """[(frame, bb, terminator, lifted args)] of the call sites whose resolved callee name satisfies pred, in the root and in
        the helpers / closures reachable from it"""
        res = []
        for fr in self.frames(root, depth, stop):
            for bb, t in fr.calls():
                if pred(callee_name(t), t):
                    res.append((fr, bb, t, fr.args(bb)))
        return res

    def alternatives(self, body, bb, idx, op):
        """[(value term, defining block)] of an operand that is a local with several whole definitions on different paths
        (`let x = match .. { A => a, B => b }`): one entry per definition; a single entry otherwise"""
        from .terms import T
        ix = self.eng.bx(body)
        l = op['place']['l'] if op['k'] in ('copy', 'move') and not op['place']['p'] else None
        hops = 0
        negated = False

        def neg(t):
            if not negated:
                return t
            if t.tag == 'const' and isinstance(t[1], bool):
                return T('const', not t[1])
            if t.tag == 'unop' and t[1] == 'Not':
                return t[2]
            return T('unop', 'Not', t)
        while l is not None and hops < 6:
            wd = ix.whole_defs(l)
            if len(wd) == 1 and wd[0][2] == 'assign' and wd[0][3]['rv']['k'] == 'use' and wd[0][3]['rv']['op']['k'] in ('copy', 'move') and not wd[0][3]['rv']['op']['place']['p']:
                l = wd[0][3]['rv']['op']['place']['l']
                hops += 1
                continue
            # `!flag` of a flag with several definitions: the alternatives of the flag, each negated
            if len(wd) == 1 and wd[0][2] == 'assign' and wd[0][3]['rv']['k'] == 'unop' and wd[0][3]['rv'].get('op') == 'Not' \
                    and wd[0][3]['rv']['a']['k'] in ('copy', 'move') and not wd[0][3]['rv']['a']['place']['p'] and body.local_ty(l) == 'bool':
                l = wd[0][3]['rv']['a']['place']['l']
                negated = not negated
                hops += 1
                continue
            if len(wd) >= 2:
                out = []
                for (dbb, didx, kind, node) in wd:
                    if kind == 'call':
                        out.append((neg(self.eng.call_result(body, dbb)), dbb))
                    else:
                        out.append((neg(self.eng.rvalue(body, dbb, didx, node['rv'])), dbb))
                return out
            break
        return [(self.eng.operand(body, bb, idx, op), bb)]

    def closure_site(self, cbody):
        """(parent body, block, statement index, capture operands) of the place a closure body is created, or None"""
        idx = self.__dict__.setdefault('_csites', None)
        if idx is None:
            idx = {}
            for b in self.facts.fns():
                for blk in b.blocks:
                    if blk['cleanup']:
                        continue
                    for si, s in enumerate(blk['stmts']):
                        if s['k'] == 'assign' and s['rv']['k'] == 'aggregate' and s['rv']['kind'].get('a') == 'closure':
                            idx.setdefault(s['rv']['kind']['path'], (b, blk['i'], si, s))
            self._csites = idx
        return idx.get(cbody.path)

    def lift(self, cbody, term):
        """(parent body, creation block, term in the parent's vocabulary): upvars replaced by the captured values, the
        closure parameter by the element of the iterator the closure is applied to; None when the body is not a closure"""
        cs = self.closure_site(cbody)
        if cs is None:
            return None
        pb, bb, si, s = cs
        env = {}
        for j, o in enumerate(s['rv']['ops']):
            env[('upvar', cbody.key, j)] = self.eng.operand(pb, bb, si, o)
        if not s['place']['p']:
            for pi, pt in self.eng.applied_env(pb, bb, s['place']['l']).items():
                env[('param', cbody.key, pi)] = pt
        return pb, bb, self.eng.subst(term, env, ())

    def args(self, body, bb):
        return self.eng.call_args(body, bb)

    def result(self, body, bb):
        return self.eng.call_result(body, bb)

    # ---- outcome classification and guards -----------------------------------------------------------
    def outcomes(self, body):
        k = body.key
        if k not in self._out:
            self._out[k] = self.cfgof(body).outcome_sets()
        return self._out[k]

    def rejecting(self, body, bb, reject=('err', 'none')):
        o = self.outcomes(body).get(bb)
        if o is not None and not o:
            # no normal path from here reaches a return at all (a failed assertion, `unreachable!()`): not an accepted continuation
            return True
        return bool(o) and o <= set(reject)

    def ok_sites(self, body):
        """blocks that assign the return place a success value (Ok / Some / plain value / callee result)"""
        kinds = self.cfgof(body).result_kind_sites()
        return sorted(b for b, k in kinds.items() if k in ('ok', 'some', 'value', 'callret'))

    def guards(self, body, reject=('err', 'none')):
        key = (body.key, tuple(reject))
        if key in self._guards:
            return self._guards[key]
        cfg = self.cfgof(body)
        out = self.outcomes(body)
        rej = set(reject)
        res = []
        for i in cfg.rpo:
            t = body.block[i]['term']
            if t['k'] != 'switch':
                continue
            if not out[i] or out[i] <= rej:
                continue
            edges = [(str(v), tgt) for v, tgt in t['arms']] + [('otherwise', t['otherwise'])]
            bad = [(v, tgt) for v, tgt in edges if out.get(tgt) and out[tgt] <= rej]
            good = [(v, tgt) for v, tgt in edges if not (out.get(tgt) and out[tgt] <= rej) and out.get(tgt)]
            if bad and good:
                cond = self.eng.operand(body, i, TERM_IDX, t['discr'])
                g = Guard(body, i, cond, [v for v, _ in bad], [v for v, _ in good], [x for _, x in bad], [x for _, x in good], t['span'],
                          self.discr_type(body, t['discr']))
                d = t['discr']
                g.cond_ty = (body.local_ty(d['place']['l']) if not d['place']['p'] else d['place'].get('ty')) if d['k'] in ('copy', 'move') else None
                res.append(g)
        self._guards[key] = res
        return res

    def discr_type(self, body, op):
        """type of the enum whose discriminant the switch operand holds (None if the operand is not a discriminant)"""
        if op['k'] not in ('copy', 'move') or op['place']['p']:
            return None
        for d in self.eng.bx(body).defs.get(op['place']['l'], []):
            if d[2] == 'assign' and d[3]['rv']['k'] == 'discr':
                return d[3]['rv']['place']['ty']
        return None

    def guards_dominating(self, body, bb, reject=('err', 'none')):
        cfg = self.cfgof(body)
        return [g for g in self.guards(body, reject) if g.bb != bb and cfg.dominates(g.bb, bb)]

    def path_conditions(self, body, bb, depth=0):
        """[(switch block, cond term, arm value)] for dominating switches whose single arm leads to bb"""
        cfg = self.cfgof(body)
        res = []
        n = bb
        while True:
            p = cfg.idom.get(n)
            if p is None or p == n:
                break
            t = body.block[p]['term']
            if t['k'] == 'switch' and const_switch_value(body.block[p]) is not None:
                n = p
                continue            # a compile-time constant decides nothing about the inputs
            if t['k'] == 'switch':
                edges = [(str(v), tgt) for v, tgt in t['arms']] + [('otherwise', t['otherwise'])]
                owners, otargets = [], []
                for v, tgt in edges:
                    if cfg.dominates(tgt, bb):
                        others = [x for x in cfg.pred.get(tgt, []) if x != p and not cfg.dominates(tgt, x)]
                        if not others:
                            owners.append(v)
                            otargets.append(tgt)
                outs = self.outcomes(body)
                others_ = [tgt for v, tgt in edges if v not in owners]
                if others_ and all(outs.get(tgt) is not None and not outs.get(tgt) for tgt in others_):
                    # the other arm only panics (`debug_assert!`, `assert!`, `unreachable!()`): an assertion is not a condition under
                    # which the code below applies to fewer inputs -- whether it can fail is the panic rules' question
                    n = p
                    continue
                if len(owners) >= 1 and len(owners) < len(edges):
                    res.append((p, self.eng.operand(body, p, TERM_IDX, t['discr']), tuple(owners), tuple(otargets)))
                    # the switch operand is a flag set to constants on different paths (`matches!(x, A)`, `let f = a && b`): the value that
                    # leads here was set at one place, and whatever decided that place holds here as well
                    d = t['discr']
                    if d['k'] in ('copy', 'move') and not d['place']['p'] and depth < 3:
                        ixb = self.eng.bx(body)
                        # the flag may be read through copies, a negation, and a component of a tuple of flags
                        # (`let (checks, recovers) = match action { A => (true, false), .. }; if !checks { .. }`)
                        fl, fld, neg_ = d['place']['l'], None, False
                        for _hop in range(6):
                            w1 = ixb.whole_defs(fl)
                            if len(w1) != 1 or w1[0][2] != 'assign':
                                break
                            rv1 = w1[0][3]['rv']
                            if rv1['k'] == 'use' and rv1['op'].get('k') in ('copy', 'move'):
                                pp = rv1['op']['place']
                                if not pp['p']:
                                    fl = pp['l']
                                    continue
                                if fld is None and len(pp['p']) == 1 and pp['p'][0]['k'] == 'field':
                                    fl, fld = pp['l'], pp['p'][0]['i']
                                    continue
                                if len(pp['p']) == 1 and pp['p'][0]['k'] == 'deref':
                                    # read through a reference to the flag (the guard of a match arm borrows what it tests)
                                    w2 = ixb.whole_defs(pp['l'])
                                    if len(w2) == 1 and w2[0][2] == 'assign' and w2[0][3]['rv']['k'] == 'ref' and not w2[0][3]['rv']['place']['p']:
                                        fl = w2[0][3]['rv']['place']['l']
                                        continue
                                break
                            if rv1['k'] == 'unop' and rv1.get('op') == 'Not' and rv1.get('a', {}).get('k') in ('copy', 'move') and not rv1['a']['place']['p']:
                                fl, neg_ = rv1['a']['place']['l'], not neg_
                                continue
                            break
                        wd = ixb.whole_defs(fl)
                        consts = []
                        for (dbb, didx, kind, node) in wd:
                            o = None
                            if kind == 'assign' and fld is None and node['rv']['k'] == 'use' and node['rv']['op']['k'] == 'const':
                                o = node['rv']['op']
                            elif kind == 'assign' and fld is not None and node['rv']['k'] == 'aggregate' and node['rv']['kind'].get('a') == 'tuple' and fld < len(node['rv']['ops']) \
                                    and node['rv']['ops'][fld].get('k') == 'const':
                                o = node['rv']['ops'][fld]
                            if o is not None and ('bool' in o or 'int' in o):
                                v_ = int(o['bool']) if 'bool' in o else int(o['int'])
                                if neg_ and v_ in (0, 1):
                                    v_ = 1 - v_
                                consts.append((dbb, str(v_)))
                            else:
                                consts = None
                                break
                        if consts and len(consts) >= 2:
                            armvals = {str(v) for v, _ in t['arms']}
                            match = [dbb for dbb, v in consts if (v in owners) or ('otherwise' in owners and v not in armvals)]
                            if len(match) == 1 and match[0] != bb:
                                for x in self.path_conditions(body, match[0], depth + 1):
                                    if x not in res:
                                        res.append(x)
                            elif len(match) > 1 and bb not in match:
                                # the value that leads here is set in several arms of one and the same switch (`match action { A => (true, ..),
                                # B => (true, ..), C => (false, ..) }`): here holds "the operand of that switch is one of those arms"
                                firsts = []
                                for dbb in match:
                                    pc_ = self.path_conditions(body, dbb, depth + 1)
                                    firsts.append(pc_[0] if pc_ else None)
                                if all(f_ is not None for f_ in firsts) and len({(f_[0], f_[1].id) for f_ in firsts}) == 1:
                                    arms_ = tuple(sorted({a_ for f_ in firsts for a_ in f_[2]}))
                                    tg_ = tuple(t_ for f_ in firsts for t_ in f_[3])
                                    x = (firsts[0][0], firsts[0][1], arms_, tg_)
                                    if x not in res:
                                        res.append(x)
            n = p
        return res

    def must_follow(self, body, a, b):
        """every non-rejecting continuation of block a executes block b before the next iteration of a's innermost
        loop (or before returning): a and b execute equally often on accepted runs"""
        cfg = self.cfgof(body)
        if a == b:
            return True
        if not cfg.dominates(a, b):
            return False
        hs = cfg.loop_of.get(a, [])
        return self.must_reach(body, cfg.succ.get(a, []), b, hs[-1] if hs else None)

    def must_reach(self, body, starts, b, header):
        """every non-rejecting path from the start blocks reaches b before re-entering `header`, leaving its loop, or
        returning"""
        cfg = self.cfgof(body)
        seen = set()
        work = list(starts)
        while work:
            x = work.pop()
            if x in seen or x == b:
                continue
            seen.add(x)
            if self.rejecting(body, x) or body.block[x]['term']['k'] == 'unreachable':
                continue
            if x == header or body.block[x]['term']['k'] == 'return':
                return False
            if header is not None and x not in cfg.loops[header]:
                return False
            work.extend(cfg.succ.get(x, []))
        return True

    def control_deps(self, body, bb):
        """switches on which block bb is control-dependent within one iteration of its innermost loop (or the function):
        one non-rejecting arm always leads to bb, another may avoid it (skip / continue / early success return).
        Returns [(switch block, cond term, arms that always reach bb, arms that may avoid bb)]"""
        cfg = self.cfgof(body)
        hs = cfg.loop_of.get(bb, [])
        header = hs[-1] if hs else None
        region = cfg.loops[header] if header is not None else cfg.reach_set
        out = []
        for s in cfg.rpo:
            if s == bb or s not in region:
                continue
            t = body.block[s]['term']
            if t['k'] != 'switch' or bb not in cfg.reach_from(s):
                continue
            edges = [(str(v), tg) for v, tg in t['arms']] + [('otherwise', t['otherwise'])]
            sure, maybe = [], []
            for v, tg in edges:
                if body.block[tg]['term']['k'] == 'unreachable' or self.rejecting(body, tg):
                    continue
                if tg == bb or self.must_reach(body, [tg], bb, header):
                    sure.append(v)
                else:
                    maybe.append(v)
            if sure and maybe:
                out.append((s, self.eng.operand(body, s, TERM_IDX, t['discr']), tuple(sure), tuple(maybe)))
        return out

    def control_deps_transitive(self, body, bb):
        """control_deps closed under dependence of the controlling switches themselves (a skip nested under another branch)"""
        out, seen, work = [], set(), [bb]
        while work:
            x = work.pop()
            for d in self.control_deps(body, x):
                if d[0] in seen:
                    continue
                seen.add(d[0])
                out.append(d)
                work.append(d[0])
        return out

    def every_iteration(self, body, lp, bb):
        """block bb executes on every non-rejected iteration of loop lp"""
        cfg = self.cfgof(body)
        latches = [p for p in cfg.pred.get(lp.header, []) if p in lp.blocks]
        return bool(latches) and all(cfg.dominates(bb, l) for l in latches)

    # ---- loops -----------------------------------------------------------------------------------------
    def loops(self, body):
        k = body.key
        if k in self._loops:
            return self._loops[k]
        cfg = self.cfgof(body)
        res = {}
        for h, blocks in cfg.loops.items():
            lp = Loop(body, h, blocks)
            for b in blocks:
                for s in cfg.succ.get(b, []):
                    if s not in blocks and body.block[s]['term']['k'] != 'unreachable':
                        lp.exits.append((b, s))
            # driver: a next() call inside the loop whose discriminant switch has an arm leaving the loop
            for b in sorted(blocks):
                t = body.block[b]['term']
                if t['k'] == 'call' and callee_decl(t) in ELEM_NEXT:
                    # is this next() belonging to *this* loop (innermost loop containing it is h)?
                    if cfg.loop_of.get(b, [None])[-1] != h:
                        continue
                    tgt = t['target']
                    sw = body.block[tgt]['term'] if tgt in body.block else None
                    # the switch on the discriminant may be one block further
                    hops = 0
                    cur = tgt
                    while sw is not None and sw['k'] != 'switch' and hops < 3:
                        nxt = cfg.succ.get(cur, [])
                        if len(nxt) != 1:
                            break
                        cur = nxt[0]
                        sw = body.block[cur]['term']
                        hops += 1
                    if sw is not None and sw['k'] == 'switch':
                        edges = [tgt2 for _, tgt2 in sw['arms']] + [sw['otherwise']]
                        if any(e not in blocks for e in edges):
                            lp.driver_bb = b
                            lp.iter_term = self.eng.operand(body, b, TERM_IDX, t['args'][0])
                            # an index loop over the length of a collection (or the smallest of several) walks it (them, zipped)
                            it0 = lp.iter_term
                            muts = []
                            while it0.tag == 'mut':
                                it0 = it0[1]
                            from .terms import index_view, T as _T
                            v_ = index_view(it0) if it0.tag == 'range' else None
                            if v_ is not None:
                                lp.index_range = it0
                                # (from 0: the loop variable is the enumerate counter; from k > 0 it is not, only the elements are)
                                lp.iter_term = _T('enumerate', v_) if (it0[1].tag == 'const' and it0[1][1] == 0) else v_
                            lp.driver_switch = cur
                            break
            if lp.driver_bb is None:
                self._window_driver(body, lp, blocks)
            ok_exits = [(a, b) for a, b in lp.exits if not self.rejecting(body, b)]
            lp.ok_exits = ok_exits
            lp.driver_only_exit = lp.driver_bb is not None and all(a == getattr(lp, 'driver_switch', None) for a, _ in ok_exits)
            res[h] = lp
        self._loops[k] = res
        return res

    def _window_driver(self, body, lp, blocks):
        """`while cursor < len(Y) { end = min(cursor + C, len(Y)); .. Y[cursor..end] ..; cursor = end }`: the loop walks the chunks of Y.
        Recognised when the switch that leaves the loop tests `cursor < len(Y)` (leaving when false) for a cursor that is a window
        cursor in the sense of terms.window_of.  The loop then counts as driven by `chunks(Y, C)`, its exit test being the exhaustion
        of that walk."""
        from .terms import window_of, T as _T, walk as _walk
        cfg = self.cfgof(body)
        for b in sorted(blocks):
            t = body.block[b]['term']
            if t['k'] != 'switch' or cfg.loop_of.get(b, [None])[-1] != lp.header:
                continue
            edges = [(str(v), tgt) for v, tgt in t['arms']] + [('otherwise', t['otherwise'])]
            leaving = [(v, tgt) for v, tgt in edges if tgt not in blocks]
            staying = [(v, tgt) for v, tgt in edges if tgt in blocks]
            if len(leaving) != 1 or not staying:
                continue
            try:
                c = self.eng.operand(body, b, TERM_IDX, t['discr'])
            except Exception:
                continue
            # cursor < len(Y), leaving on false (0);  or  cursor >= len(Y), leaving on true
            if c.tag != 'binop':
                continue
            op, x, y = c[1], c[2], c[3]
            if op in ('Gt', 'Le'):
                op, x, y = {'Gt': 'Lt', 'Le': 'Ge'}[op], y, x
            leave_on_false = leaving[0][0] == '0'
            if not ((op == 'Lt' and leave_on_false) or (op == 'Ge' and not leave_on_false)):
                continue
            if x.tag != 'lv' or not (y.tag == 'call' and y[1].split('::')[-1] == 'len' and len(y[2]) == 1):
                continue
            # the cursor's update is the window's upper bound: find it among the definitions
            win = None
            for d in self.eng.lv_defs(x):
                if d.tag == 'call' and d[1].split('::')[-1] == 'min':
                    win = window_of(_T('range', x, d), self.eng)
                    if win is not None:
                        break
            if win is None:
                continue
            Y, C = win
            a0, b0 = Y, y[2][0]
            while a0.tag == 'mut':
                a0 = a0[1]
            while b0.tag == 'mut':
                b0 = b0[1]
            if a0 is not b0:
                continue
            lp.driver_bb = b
            lp.driver_switch = b
            lp.iter_term = _T('adapt', 'chunks', Y, C)
            lp.window = (x, Y, C)
            return

    def holds_at(self, body, gbb, bb):
        """does the accept condition of the guard in block gbb hold when bb executes?  Either the guard dominates bb, or it sits in an
        earlier loop that (a) checks it on every iteration, (b) is left, on accepted paths, only when its iterator is exhausted, and
        (c) is finished before bb: a fact checked for every member by a completed loop still holds when a later loop walks the members
        again (the canonical names of per-member data do not depend on which loop reads them)."""
        cfg = self.cfgof(body)
        if gbb != bb and cfg.dominates(gbb, bb):
            return True
        hs = cfg.loop_of.get(gbb, [])
        if not hs:
            return False
        lps = self.loops(body)
        for h in hs:
            lp = lps.get(h)
            if lp is None or bb in lp.blocks or not cfg.dominates(lp.header, bb):
                continue
            if lp.iter_term is None or not lp.driver_only_exit:
                continue
            if not self.every_iteration(body, lp, gbb):
                continue
            # nested: the guard must also run on every iteration of the loops between it and lp (checked for the innermost only)
            if hs[-1] != h:
                inner = lps.get(hs[-1])
                if inner is None or not inner.driver_only_exit or not self.every_iteration(body, inner, gbb):
                    continue
            return True
        return False

    def enclosing_loops(self, body, bb):
        cfg = self.cfgof(body)
        lps = self.loops(body)
        return [lps[h] for h in cfg.loop_of.get(bb, [])]

    # ---- term utilities ----------------------------------------------------------------------------------
    @staticmethod
    def adapters(term):
        """names of order/extent-changing adapters occurring in an iterator/collection term"""
        return [x[1] for x in walk(term) if x.tag in ('adapt', 'via')]

    @staticmethod
    def shape_adapters(term):
        """order/extent-changing adapters applied to the iterator *structure* of a term (zip / chain / map / enumerate ..),
        not those buried in closure captures, call arguments or the fill events of an underlying vector"""
        out = []
        stack = [term]
        seen = set()
        while stack:
            x = stack.pop()
            if x.id in seen:
                continue
            seen.add(x.id)
            k = x.tag
            if k in ('adapt', 'via'):
                out.append(x[1])
                stack.append(x[2])
            elif k == 'mut':
                stack.append(x[1])
            elif k in ('zip', 'chain', 'interleave'):
                stack.extend([x[1], x[2]])
            elif k in ('map', 'enumerate', 'flatten', 'once', 'repeat', 'elem'):
                stack.append(x[1])
            elif k == 'phi':
                stack.extend(x.args)
        return out

    @staticmethod
    def mentions_field(term, name):
        return contains(term, lambda x: x.tag == 'field' and x[1] == name)

    @staticmethod
    def fields_of(term):
        return {x[1] for x in walk(term) if x.tag == 'field'}

    @staticmethod
    def params_of(term):
        return {x[3] for x in walk(term) if x.tag == 'param'}

    @staticmethod
    def consts_of(term):
        return [x[1] for x in walk(term) if x.tag == 'const']

    @staticmethod
    def calls_of(term, part=None):
        return [x for x in walk(term) if x.tag == 'call' and (part is None or part in x[1])]
