// Prototype fact extractor: serialises the type-checked program (MIR + items) of the
// tari_bulletproofs_plus crate to JSON.  Zero dependencies; JSON is written by hand.
#![feature(rustc_private)]
extern crate rustc_abi;
extern crate rustc_driver;
extern crate rustc_hir;
extern crate rustc_interface;
extern crate rustc_middle;
extern crate rustc_session;
extern crate rustc_span;

use std::fmt::Write as _;

use rustc_driver::Compilation;
use rustc_hir::def::DefKind;
use rustc_hir::def_id::{DefId, LOCAL_CRATE};
use rustc_middle::mir::interpret::{GlobalAlloc, Scalar as MScalar};
use rustc_middle::mir::{
    self, AggregateKind, Body, Const, ConstValue, Operand, Place, ProjectionElem, Rvalue, StatementKind,
    TerminatorKind,
};
use rustc_middle::ty::print::PrintTraitRefExt;
use rustc_middle::ty::{self, Ty, TyCtxt, TypingEnv};
use rustc_span::Span;

fn esc(s: &str) -> String {
    let mut o = String::with_capacity(s.len() + 2);
    o.push('"');
    for c in s.chars() {
        match c {
            '"' => o.push_str("\\\""),
            '\\' => o.push_str("\\\\"),
            '\n' => o.push_str("\\n"),
            '\r' => o.push_str("\\r"),
            '\t' => o.push_str("\\t"),
            c if (c as u32) < 0x20 => {
                let _ = write!(o, "\\u{:04x}", c as u32);
            },
            c => o.push(c),
        }
    }
    o.push('"');
    o
}

fn hex(bytes: &[u8]) -> String {
    let mut s = String::with_capacity(bytes.len() * 2);
    for b in bytes {
        let _ = write!(s, "{:02x}", b);
    }
    s
}

struct Cx<'tcx> {
    tcx: TyCtxt<'tcx>,
}

impl<'tcx> Cx<'tcx> {
    fn span(&self, sp: Span) -> String {
        let sm = self.tcx.sess.source_map();
        let lo = sm.lookup_char_pos(sp.lo());
        let hi = sm.lookup_char_pos(sp.hi());
        let file = match &lo.file.name {
            rustc_span::FileName::Real(r) => match r.local_path() { Some(p) => format!("{}", p.display()), None => format!("{:?}", r) },
            other => format!("{:?}", other),
        };
        format!(
            "{{\"file\":{},\"l0\":{},\"c0\":{},\"l1\":{},\"c1\":{},\"exp\":{}}}",
            esc(&file),
            lo.line,
            lo.col.0 + 1,
            hi.line,
            hi.col.0 + 1,
            sp.from_expansion()
        )
    }

    fn path(&self, did: DefId) -> String {
        self.tcx.def_path_str(did)
    }

    fn krate(&self, did: DefId) -> String {
        self.tcx.crate_name(did.krate).to_string()
    }

    fn ty(&self, t: Ty<'tcx>) -> String {
        esc(&format!("{}", t))
    }

    fn alloc_bytes(&self, alloc_id: rustc_middle::mir::interpret::AllocId, off: u64, len: u64) -> Option<Vec<u8>> {
        match self.tcx.try_get_global_alloc(alloc_id)? {
            GlobalAlloc::Memory(a) => {
                let a = a.inner();
                let total = a.len() as u64;
                if off.checked_add(len)? > total {
                    return None;
                }
                let r = (off as usize)..((off + len) as usize);
                Some(a.inspect_with_uninit_and_ptr_outside_interpreter(r).to_vec())
            },
            _ => None,
        }
    }

    // JSON for a constant
    fn konst(&self, c: &Const<'tcx>, env: TypingEnv<'tcx>, sp: Span) -> String {
        let ty = c.ty();
        let mut o = format!("{{\"k\":\"const\",\"ty\":{}", self.ty(ty));
        if let Const::Unevaluated(uv, _) = c {
            let _ = write!(o, ",\"item\":{}", esc(&self.path(uv.def)));
            if let Some(p) = uv.promoted {
                let _ = write!(o, ",\"promoted\":{}", p.as_usize());
            }
        }
        if let ty::FnDef(did, args) = ty.kind() {
            let _ = write!(
                o,
                ",\"fn\":{},\"fn_args\":[{}]",
                esc(&self.path(*did)),
                args.iter().map(|a| esc(&format!("{}", a))).collect::<Vec<_>>().join(",")
            );
        }
        match c.eval(self.tcx, env, sp) {
            Ok(v) => match v {
                ConstValue::Scalar(MScalar::Int(i)) => {
                    let sz = i.size();
                    let bits = i.to_bits(sz);
                    let _ = write!(o, ",\"int\":\"{}\",\"size\":{}", bits, sz.bytes());
                    if ty.is_bool() {
                        let _ = write!(o, ",\"bool\":{}", bits != 0);
                    }
                    if ty.is_signed() {
                        let sv = sz.sign_extend(bits) as i128;
                        let _ = write!(o, ",\"sint\":\"{}\"", sv);
                    }
                },
                ConstValue::Scalar(MScalar::Ptr(ptr, _)) => {
                    let (prov, off) = ptr.prov_and_relative_offset();
                    let aid = prov.alloc_id();
                    match self.tcx.try_get_global_alloc(aid) {
                        Some(GlobalAlloc::Static(d)) => {
                            let _ = write!(o, ",\"static\":{}", esc(&self.path(d)));
                        },
                        Some(GlobalAlloc::Function { instance }) => {
                            let _ = write!(o, ",\"fnptr\":{}", esc(&self.path(instance.def_id())));
                        },
                        Some(GlobalAlloc::Memory(a)) => {
                            // pointee size from type when it is a reference to a sized array / value
                            let total = a.inner().len() as u64;
                            let len = total.saturating_sub(off.bytes());
                            if let Some(b) = self.alloc_bytes(aid, off.bytes(), len) {
                                if b.len() <= 4096 {
                                    let _ = write!(o, ",\"bytes\":\"{}\"", hex(&b));
                                }
                            }
                        },
                        _ => {},
                    }
                },
                ConstValue::ZeroSized => {
                    o.push_str(",\"zst\":true");
                },
                ConstValue::Slice { alloc_id, meta } => {
                    // element size: str / [u8] => 1
                    let elem = match ty.builtin_deref(true).map(|t| t.kind()) {
                        Some(ty::Str) => Some(1u64),
                        Some(ty::Slice(e)) if *e == self.tcx.types.u8 => Some(1u64),
                        _ => None,
                    };
                    if let Some(es) = elem {
                        if let Some(b) = self.alloc_bytes(alloc_id, 0, meta * es) {
                            let _ = write!(o, ",\"bytes\":\"{}\"", hex(&b));
                            if let Ok(s) = std::str::from_utf8(&b) {
                                let _ = write!(o, ",\"str\":{}", esc(s));
                            }
                        }
                    }
                    let _ = write!(o, ",\"slice_len\":{}", meta);
                },
                ConstValue::Indirect { alloc_id, offset } => {
                    if let Some(GlobalAlloc::Memory(a)) = self.tcx.try_get_global_alloc(alloc_id) {
                        let total = a.inner().len() as u64;
                        let len = total.saturating_sub(offset.bytes());
                        if len <= 4096 {
                            if let Some(b) = self.alloc_bytes(alloc_id, offset.bytes(), len) {
                                let _ = write!(o, ",\"bytes\":\"{}\"", hex(&b));
                            }
                        }
                    }
                },
            },
            Err(_) => {
                o.push_str(",\"uneval\":true");
            },
        }
        o.push('}');
        o
    }

    fn place(&self, p: &Place<'tcx>, body: &Body<'tcx>) -> String {
        let mut o = format!("{{\"l\":{},\"p\":[", p.local.as_usize());
        let mut first = true;
        let mut cur = mir::PlaceTy::from_ty(body.local_decls[p.local].ty);
        for elem in p.projection.iter() {
            if !first {
                o.push(',');
            }
            first = false;
            match elem {
                ProjectionElem::Deref => o.push_str("{\"k\":\"deref\"}"),
                ProjectionElem::Field(f, fty) => {
                    // field name if ADT
                    let mut name = String::new();
                    if let ty::Adt(adt, _) = cur.ty.kind() {
                        let vidx = cur.variant_index.unwrap_or(rustc_abi::FIRST_VARIANT);
                        if let Some(v) = adt.variants().get(vidx) {
                            if let Some(fd) = v.fields.get(f) {
                                name = fd.name.to_string();
                            }
                        }
                    }
                    let _ = write!(
                        o,
                        "{{\"k\":\"field\",\"i\":{},\"name\":{},\"ty\":{}}}",
                        f.as_usize(),
                        esc(&name),
                        self.ty(fty)
                    );
                },
                ProjectionElem::Index(l) => {
                    let _ = write!(o, "{{\"k\":\"index\",\"l\":{}}}", l.as_usize());
                },
                ProjectionElem::ConstantIndex { offset, min_length, from_end } => {
                    let _ = write!(
                        o,
                        "{{\"k\":\"cindex\",\"off\":{},\"min\":{},\"from_end\":{}}}",
                        offset, min_length, from_end
                    );
                },
                ProjectionElem::Subslice { from, to, from_end } => {
                    let _ = write!(o, "{{\"k\":\"subslice\",\"from\":{},\"to\":{},\"from_end\":{}}}", from, to, from_end);
                },
                ProjectionElem::Downcast(sym, v) => {
                    let _ = write!(
                        o,
                        "{{\"k\":\"downcast\",\"variant\":{},\"i\":{}}}",
                        esc(&sym.map(|s| s.to_string()).unwrap_or_default()),
                        v.as_usize()
                    );
                },
                ProjectionElem::OpaqueCast(_) => o.push_str("{\"k\":\"opaquecast\"}"),
                ProjectionElem::UnwrapUnsafeBinder(_) => o.push_str("{\"k\":\"unwrapbinder\"}"),
            }
            cur = cur.projection_ty(self.tcx, elem);
        }
        let _ = write!(o, "],\"ty\":{}}}", self.ty(cur.ty));
        o
    }

    fn operand(&self, op: &Operand<'tcx>, body: &Body<'tcx>, env: TypingEnv<'tcx>) -> String {
        match op {
            Operand::Copy(p) => format!("{{\"k\":\"copy\",\"place\":{}}}", self.place(p, body)),
            Operand::Move(p) => format!("{{\"k\":\"move\",\"place\":{}}}", self.place(p, body)),
            Operand::Constant(c) => self.konst(&c.const_, env, c.span),
            #[allow(unreachable_patterns)]
            _ => "{\"k\":\"other\"}".to_string(),
        }
    }

    fn rvalue(&self, rv: &Rvalue<'tcx>, body: &Body<'tcx>, env: TypingEnv<'tcx>) -> String {
        match rv {
            Rvalue::Use(op, ..) => format!("{{\"k\":\"use\",\"op\":{}}}", self.operand(op, body, env)),
            Rvalue::Repeat(op, n) => {
                format!("{{\"k\":\"repeat\",\"op\":{},\"n\":{}}}", self.operand(op, body, env), esc(&format!("{}", n)))
            },
            Rvalue::Ref(_, bk, p) => {
                let m = matches!(bk, mir::BorrowKind::Mut { .. });
                format!("{{\"k\":\"ref\",\"mut\":{},\"place\":{}}}", m, self.place(p, body))
            },
            Rvalue::ThreadLocalRef(d) => format!("{{\"k\":\"tlsref\",\"def\":{}}}", esc(&self.path(*d))),
            Rvalue::RawPtr(k, p) => {
                format!("{{\"k\":\"rawptr\",\"kind\":{},\"place\":{}}}", esc(&format!("{:?}", k)), self.place(p, body))
            },
            Rvalue::Cast(ck, op, t) => format!(
                "{{\"k\":\"cast\",\"kind\":{},\"op\":{},\"ty\":{}}}",
                esc(&format!("{:?}", ck)),
                self.operand(op, body, env),
                self.ty(*t)
            ),
            Rvalue::BinaryOp(bop, ab) => {
                let (a, b) = &**ab;
                format!(
                    "{{\"k\":\"binop\",\"op\":{},\"a\":{},\"b\":{}}}",
                    esc(&format!("{:?}", bop)),
                    self.operand(a, body, env),
                    self.operand(b, body, env)
                )
            },
            Rvalue::UnaryOp(uop, a) => format!(
                "{{\"k\":\"unop\",\"op\":{},\"a\":{}}}",
                esc(&format!("{:?}", uop)),
                self.operand(a, body, env)
            ),
            Rvalue::Discriminant(p) => format!("{{\"k\":\"discr\",\"place\":{}}}", self.place(p, body)),
            Rvalue::Aggregate(ak, ops) => {
                let kind = match &**ak {
                    AggregateKind::Array(t) => format!("{{\"a\":\"array\",\"elem\":{}}}", self.ty(*t)),
                    AggregateKind::Tuple => "{\"a\":\"tuple\"}".to_string(),
                    AggregateKind::Adt(did, vidx, _args, _, active) => {
                        let adt = self.tcx.adt_def(*did);
                        let v = adt.variant(*vidx);
                        let fields = v.fields.iter().map(|f| esc(&f.name.to_string())).collect::<Vec<_>>().join(",");
                        format!(
                            "{{\"a\":\"adt\",\"path\":{},\"variant\":{},\"vidx\":{},\"fields\":[{}],\"union_field\":{}}}",
                            esc(&self.path(*did)),
                            esc(&v.name.to_string()),
                            vidx.as_usize(),
                            fields,
                            active.map(|f| f.as_usize() as i64).unwrap_or(-1)
                        )
                    },
                    AggregateKind::Closure(did, _) => {
                        format!("{{\"a\":\"closure\",\"path\":{}}}", esc(&self.path(*did)))
                    },
                    other => format!("{{\"a\":\"other\",\"dbg\":{}}}", esc(&format!("{:?}", other))),
                };
                format!(
                    "{{\"k\":\"aggregate\",\"kind\":{},\"ops\":[{}]}}",
                    kind,
                    ops.iter().map(|o| self.operand(o, body, env)).collect::<Vec<_>>().join(",")
                )
            },
            Rvalue::CopyForDeref(p) => format!("{{\"k\":\"copyforderef\",\"place\":{}}}", self.place(p, body)),
            other => format!("{{\"k\":\"other\",\"dbg\":{}}}", esc(&format!("{:?}", other))),
        }
    }

    fn body(&self, did: DefId, body: &Body<'tcx>, label: &str, out: &mut String) {
        let tcx = self.tcx;
        let env = TypingEnv::post_analysis(tcx, did);
        let kind = tcx.def_kind(did);
        let _ = write!(
            out,
            "{{\"path\":{},\"label\":{},\"kind\":{},\"span\":{},\"argc\":{}",
            esc(&self.path(did)),
            esc(label),
            esc(&format!("{:?}", kind)),
            self.span(body.span),
            body.arg_count
        );
        if matches!(kind, DefKind::Fn | DefKind::AssocFn) {
            let _ = write!(out, ",\"vis\":{}", esc(&format!("{:?}", tcx.visibility(did))));
            if let Some(ldid) = did.as_local() {
                // `pub fn` inside a private module that nothing re-exports is not part of the crate's API
                let _ = write!(out, ",\"exported\":{}", tcx.effective_visibilities(()).is_reachable(ldid));
            }
            let sig = tcx.fn_sig(did).instantiate_identity().skip_norm_wip();
            let _ = write!(out, ",\"sig\":{}", esc(&format!("{}", sig)));
        }
        if let Some(parent) = tcx.opt_parent(did) {
            if matches!(tcx.def_kind(parent), DefKind::Impl { .. }) {
                let self_ty = tcx.type_of(parent).instantiate_identity().skip_norm_wip();
                let _ = write!(out, ",\"impl_self\":{}", self.ty(self_ty));
                if let Some(tr) = tcx.impl_opt_trait_ref(parent) {
                    let tr = tr.instantiate_identity().skip_norm_wip();
                    let _ = write!(out, ",\"impl_trait\":{}", esc(&self.path(tr.def_id)));
                }
            }
            if matches!(kind, DefKind::Closure) {
                let _ = write!(out, ",\"parent\":{}", esc(&self.path(parent)));
            }
        }
        // locals
        out.push_str(",\"locals\":[");
        let mut names: Vec<Option<String>> = vec![None; body.local_decls.len()];
        for vdi in &body.var_debug_info {
            if let mir::VarDebugInfoContents::Place(p) = &vdi.value {
                if p.projection.is_empty() {
                    names[p.local.as_usize()] = Some(vdi.name.to_string());
                }
            }
        }
        for (i, (l, decl)) in body.local_decls.iter_enumerated().enumerate() {
            if i > 0 {
                out.push(',');
            }
            let _ = write!(
                out,
                "{{\"i\":{},\"ty\":{},\"mut\":{}",
                l.as_usize(),
                self.ty(decl.ty),
                matches!(decl.mutability, mir::Mutability::Mut)
            );
            if let Some(n) = &names[l.as_usize()] {
                let _ = write!(out, ",\"name\":{}", esc(n));
            }
            let _ = write!(out, ",\"line\":{}", tcx.sess.source_map().lookup_char_pos(decl.source_info.span.lo()).line);
            out.push('}');
        }
        // closure upvar names
        out.push_str("],\"upvars\":[");
        let mut first = true;
        for vdi in &body.var_debug_info {
            if let mir::VarDebugInfoContents::Place(p) = &vdi.value {
                if !p.projection.is_empty() && p.local.as_usize() == 1 {
                    if !first {
                        out.push(',');
                    }
                    first = false;
                    let _ = write!(out, "{{\"name\":{},\"place\":{}}}", esc(&vdi.name.to_string()), self.place(p, body));
                }
            }
        }
        out.push_str("],\"blocks\":[");
        for (bi, (bb, data)) in body.basic_blocks.iter_enumerated().enumerate() {
            if bi > 0 {
                out.push(',');
            }
            let _ = write!(out, "{{\"i\":{},\"cleanup\":{},\"stmts\":[", bb.as_usize(), data.is_cleanup);
            let mut sfirst = true;
            for st in &data.statements {
                let s = match &st.kind {
                    StatementKind::Assign(b) => {
                        let (p, rv) = &**b;
                        Some(format!(
                            "{{\"k\":\"assign\",\"place\":{},\"rv\":{},\"line\":{}}}",
                            self.place(p, body),
                            self.rvalue(rv, body, env),
                            tcx.sess.source_map().lookup_char_pos(st.source_info.span.lo()).line
                        ))
                    },
                    StatementKind::SetDiscriminant { place, variant_index } => Some(format!(
                        "{{\"k\":\"setdiscr\",\"place\":{},\"variant\":{}}}",
                        self.place(place, body),
                        variant_index.as_usize()
                    )),
                    StatementKind::StorageDead(l) => Some(format!("{{\"k\":\"dead\",\"l\":{}}}", l.as_usize())),
                    StatementKind::StorageLive(l) => Some(format!("{{\"k\":\"live\",\"l\":{}}}", l.as_usize())),
                    StatementKind::Intrinsic(i) => {
                        Some(format!("{{\"k\":\"intrinsic\",\"dbg\":{}}}", esc(&format!("{:?}", i))))
                    },
                    _ => None,
                };
                if let Some(s) = s {
                    if !sfirst {
                        out.push(',');
                    }
                    sfirst = false;
                    out.push_str(&s);
                }
            }
            out.push_str("],\"term\":");
            let term = data.terminator();
            let tsp = self.span(term.source_info.span);
            let t = match &term.kind {
                TerminatorKind::Goto { target } => format!("{{\"k\":\"goto\",\"target\":{}}}", target.as_usize()),
                TerminatorKind::SwitchInt { discr, targets } => {
                    let arms = targets
                        .iter()
                        .map(|(v, t)| format!("[\"{}\",{}]", v, t.as_usize()))
                        .collect::<Vec<_>>()
                        .join(",");
                    format!(
                        "{{\"k\":\"switch\",\"discr\":{},\"arms\":[{}],\"otherwise\":{},\"span\":{}}}",
                        self.operand(discr, body, env),
                        arms,
                        targets.otherwise().as_usize(),
                        tsp
                    )
                },
                TerminatorKind::Return => "{\"k\":\"return\"}".to_string(),
                TerminatorKind::Unreachable => "{\"k\":\"unreachable\"}".to_string(),
                TerminatorKind::UnwindResume => "{\"k\":\"resume\"}".to_string(),
                TerminatorKind::UnwindTerminate(_) => "{\"k\":\"terminate\"}".to_string(),
                TerminatorKind::Drop { place, target, unwind, .. } => {
                    let pty = place.ty(body, tcx).ty;
                    format!(
                        "{{\"k\":\"drop\",\"place\":{},\"target\":{},\"unwind\":{},\"needs_drop\":{},\"span\":{}}}",
                        self.place(place, body),
                        target.as_usize(),
                        esc(&format!("{:?}", unwind)),
                        pty.needs_drop(tcx, env),
                        tsp
                    )
                },
                TerminatorKind::Call { func, args, destination, target, unwind, .. } => {
                    let fty = func.ty(body, tcx);
                    let f = if let ty::FnDef(cdid, cargs) = fty.kind() {
                        let resolved = ty::Instance::try_resolve(tcx, env, *cdid, cargs).ok().flatten();
                        let (rpath, rkrate, rlocal, rkind) = match resolved {
                            Some(inst) => (
                                self.path(inst.def_id()),
                                self.krate(inst.def_id()),
                                inst.def_id().is_local(),
                                format!("{:?}", inst.def).split('(').next().unwrap_or("").to_string(),
                            ),
                            None => (String::new(), String::new(), false, String::new()),
                        };
                        let trait_of = tcx
                            .opt_associated_item(*cdid)
                            .and_then(|ai| ai.trait_container(tcx))
                            .map(|t| self.path(t))
                            .unwrap_or_default();
                        format!(
                            "{{\"def\":{},\"krate\":{},\"local\":{},\"gargs\":[{}],\"trait\":{},\"res\":{},\"res_krate\":{},\"res_local\":{},\"res_kind\":{}}}",
                            esc(&self.path(*cdid)),
                            esc(&self.krate(*cdid)),
                            cdid.is_local(),
                            cargs.iter().map(|a| esc(&format!("{}", a))).collect::<Vec<_>>().join(","),
                            esc(&trait_of),
                            esc(&rpath),
                            esc(&rkrate),
                            rlocal,
                            esc(&rkind)
                        )
                    } else {
                        format!("{{\"indirect\":{}}}", self.operand(func, body, env))
                    };
                    format!(
                        "{{\"k\":\"call\",\"func\":{},\"args\":[{}],\"dest\":{},\"target\":{},\"unwind\":{},\"span\":{}}}",
                        f,
                        args.iter().map(|a| self.operand(&a.node, body, env)).collect::<Vec<_>>().join(","),
                        self.place(destination, body),
                        target.map(|t| t.as_usize() as i64).unwrap_or(-1),
                        esc(&format!("{:?}", unwind)),
                        tsp
                    )
                },
                TerminatorKind::Assert { cond, expected, msg, target, .. } => {
                    let mk = format!("{:?}", msg);
                    let kind = match &**msg {
                        mir::AssertKind::BoundsCheck { .. } => "bounds".to_string(),
                        mir::AssertKind::Overflow(op, ..) => format!("overflow:{:?}", op),
                        mir::AssertKind::OverflowNeg(..) => "overflow:Neg".to_string(),
                        mir::AssertKind::DivisionByZero(..) => "divzero".to_string(),
                        mir::AssertKind::RemainderByZero(..) => "remzero".to_string(),
                        _ => "other".to_string(),
                    };
                    format!(
                        "{{\"k\":\"assert\",\"cond\":{},\"expected\":{},\"kind\":{},\"dbg\":{},\"target\":{},\"span\":{}}}",
                        self.operand(cond, body, env),
                        expected,
                        esc(&kind),
                        esc(&mk),
                        target.as_usize(),
                        tsp
                    )
                },
                TerminatorKind::FalseEdge { real_target, .. } => {
                    format!("{{\"k\":\"goto\",\"target\":{}}}", real_target.as_usize())
                },
                TerminatorKind::FalseUnwind { real_target, .. } => {
                    format!("{{\"k\":\"goto\",\"target\":{}}}", real_target.as_usize())
                },
                other => format!("{{\"k\":\"other\",\"dbg\":{}}}", esc(&format!("{:?}", other))),
            };
            out.push_str(&t);
            out.push('}');
        }
        out.push_str("]}");
    }
}

struct Cb;

impl rustc_driver::Callbacks for Cb {
    fn after_analysis<'tcx>(&mut self, _c: &rustc_interface::interface::Compiler, tcx: TyCtxt<'tcx>) -> Compilation {
        let krate = tcx.crate_name(LOCAL_CRATE);
        let want = std::env::var("BPDRV_CRATE").unwrap_or_else(|_| "tari_bulletproofs_plus".to_string());
        if krate.as_str() != want {
            return Compilation::Continue;
        }
        let cx = Cx { tcx };
        let mut out = String::new();
        let _ = write!(out, "{{\"crate\":{},\"fns\":[", esc(krate.as_str()));
        let mut first = true;
        for ldid in tcx.hir_body_owners() {
            let did = ldid.to_def_id();
            let kind = tcx.def_kind(did);
            match kind {
                DefKind::Fn | DefKind::AssocFn | DefKind::Closure => {
                    let body: &Body<'tcx> = tcx.optimized_mir(did);
                    if !first {
                        out.push(',');
                    }
                    first = false;
                    cx.body(did, body, "fn", &mut out);
                    // promoteds
                    let proms = tcx.promoted_mir(did);
                    for (pi, pb) in proms.iter_enumerated() {
                        out.push(',');
                        cx.body(did, pb, &format!("promoted{}", pi.as_usize()), &mut out);
                    }
                },
                DefKind::Const { .. } | DefKind::AssocConst { .. } | DefKind::Static { .. } | DefKind::AnonConst | DefKind::InlineConst => {
                    let body: &Body<'tcx> = tcx.mir_for_ctfe(did);
                    if !first {
                        out.push(',');
                    }
                    first = false;
                    cx.body(did, body, "const", &mut out);
                },
                _ => {},
            }
        }
        out.push_str("],\"adts\":[");
        // ADTs, statics, impls
        let mut first = true;
        for id in tcx.hir_free_items() {
            let did = id.owner_id.to_def_id();
            let kind = tcx.def_kind(did);
            if matches!(kind, DefKind::Struct | DefKind::Enum | DefKind::Union) {
                let adt = tcx.adt_def(did);
                if !first {
                    out.push(',');
                }
                first = false;
                let _ = write!(
                    out,
                    "{{\"path\":{},\"kind\":{},\"vis\":{},\"span\":{},\"variants\":[",
                    esc(&cx.path(did)),
                    esc(&format!("{:?}", kind)),
                    esc(&format!("{:?}", tcx.visibility(did))),
                    cx.span(tcx.def_span(did))
                );
                for (vi, v) in adt.variants().iter_enumerated() {
                    if vi.as_usize() > 0 {
                        out.push(',');
                    }
                    let discr = if adt.is_enum() {
                        format!("\"{}\"", adt.discriminant_for_variant(tcx, vi).val)
                    } else {
                        "null".to_string()
                    };
                    let _ = write!(out, "{{\"name\":{},\"discr\":{},\"fields\":[", esc(&v.name.to_string()), discr);
                    for (fi, f) in v.fields.iter().enumerate() {
                        if fi > 0 {
                            out.push(',');
                        }
                        let fty = tcx.type_of(f.did).instantiate_identity().skip_norm_wip();
                        let _ = write!(
                            out,
                            "{{\"name\":{},\"ty\":{},\"vis\":{}}}",
                            esc(&f.name.to_string()),
                            cx.ty(fty),
                            esc(&format!("{:?}", f.vis))
                        );
                    }
                    out.push_str("]}");
                }
                out.push_str("]}");
            }
        }
        out.push_str("],\"statics\":[");
        let mut first = true;
        for ldid in tcx.hir_body_owners() {
            let did = ldid.to_def_id();
            if let DefKind::Static { mutability, nested, .. } = tcx.def_kind(did) {
                if !first {
                    out.push(',');
                }
                first = false;
                let sty = tcx.type_of(did).instantiate_identity().skip_norm_wip();
                let _ = write!(
                    out,
                    "{{\"path\":{},\"ty\":{},\"mut\":{},\"nested\":{},\"span\":{}}}",
                    esc(&cx.path(did)),
                    cx.ty(sty),
                    matches!(mutability, rustc_hir::Mutability::Mut),
                    nested,
                    cx.span(tcx.def_span(did))
                );
            }
        }
        out.push_str("],\"impls\":[");
        let mut first = true;
        for id in tcx.hir_free_items() {
            let did = id.owner_id.to_def_id();
            if let DefKind::Impl { of_trait } = tcx.def_kind(did) {
                if !first {
                    out.push(',');
                }
                first = false;
                let self_ty = tcx.type_of(did).instantiate_identity().skip_norm_wip();
                let tr = if of_trait {
                    let t = tcx.impl_trait_ref(did).instantiate_identity().skip_norm_wip();
                    esc(&format!("{}", t.print_only_trait_path()))
                } else {
                    "null".to_string()
                };
                let items = tcx
                    .associated_item_def_ids(did)
                    .iter()
                    .map(|d| esc(&cx.path(*d)))
                    .collect::<Vec<_>>()
                    .join(",");
                let _ = write!(
                    out,
                    "{{\"self_ty\":{},\"trait\":{},\"items\":[{}],\"span\":{},\"auto_derived\":{}}}",
                    cx.ty(self_ty),
                    tr,
                    items,
                    cx.span(tcx.def_span(did)),
                    tcx.is_automatically_derived(did)
                );
            }
        }
        out.push_str("],\"unsafe\":[");
        // unsafe blocks (HIR), unsafe fns, unsafe impls
        {
            use rustc_hir::intravisit::{self, Visitor};
            struct UV<'a, 'tcx> {
                cx: &'a Cx<'tcx>,
                found: Vec<String>,
            }
            impl<'a, 'tcx> Visitor<'tcx> for UV<'a, 'tcx> {
                fn visit_block(&mut self, b: &'tcx rustc_hir::Block<'tcx>) {
                    if matches!(b.rules, rustc_hir::BlockCheckMode::UnsafeBlock(_)) {
                        self.found.push(format!(
                            "{{\"kind\":\"block\",\"span\":{},\"exp\":{}}}",
                            self.cx.span(b.span),
                            b.span.from_expansion()
                        ));
                    }
                    intravisit::walk_block(self, b);
                }
            }
            let mut uv = UV { cx: &cx, found: vec![] };
            for ldid in tcx.hir_body_owners() {
                if let Some(body) = tcx.hir_maybe_body_owned_by(ldid) {
                    uv.visit_body(body);
                }
                let did = ldid.to_def_id();
                if matches!(tcx.def_kind(did), DefKind::Fn | DefKind::AssocFn) {
                    let sig = tcx.fn_sig(did).instantiate_identity().skip_norm_wip();
                    if !sig.safety().is_safe() {
                        uv.found.push(format!("{{\"kind\":\"fn\",\"path\":{},\"span\":{}}}", esc(&cx.path(did)), cx.span(tcx.def_span(did))));
                    }
                }
            }
            for id in tcx.hir_free_items() {
                let did = id.owner_id.to_def_id();
                if let DefKind::Impl { of_trait: true } = tcx.def_kind(did) {
                    let hdr = tcx.impl_trait_header(did);
                    if !hdr.safety.is_safe() {
                        uv.found.push(format!(
                            "{{\"kind\":\"impl\",\"span\":{},\"auto_derived\":{}}}",
                            cx.span(tcx.def_span(did)),
                            tcx.is_automatically_derived(did)
                        ));
                    }
                }
            }
            out.push_str(&uv.found.join(","));
        }
        let _ = write!(
            out,
            "],\"meta\":{{\"rustc\":{},\"features\":[{}]}}}}",
            esc(&rustc_interface::util::rustc_version_str().unwrap_or("?").to_string()),
            {
                let mut feats: Vec<String> = tcx
                    .sess
                    .config
                    .iter()
                    .filter(|(k, _)| k.as_str() == "feature")
                    .filter_map(|(_, v)| v.map(|s| esc(s.as_str())))
                    .collect();
                feats.sort();
                feats.join(",")
            }
        );
        let path = std::env::var("BPDRV_OUT").unwrap_or_else(|_| "/tmp/scratch/facts.json".to_string());
        std::fs::write(path, out).unwrap();
        Compilation::Continue
    }
}

fn main() {
    let mut args: Vec<String> = std::env::args().collect();
    if args.len() > 1 && (args[1].ends_with("rustc") || args[1].contains("/rustc")) {
        args.remove(1);
    }
    rustc_driver::run_compiler(&args, &mut Cb);
}
